#!/bin/sh
# usage: tools/mutant.sh <property> <file-relative-to-repo> <sed-expression> [more file/sed pairs...]
# Applies the edit to a scratch copy of /repo, checks it still builds, runs the property check on it and
# removes the copy. Evidence/replays of the run go to a scratch directory as well.
prop="$1"; shift
tmp=$(mktemp -d "${TMPDIR:-/tmp}/gvc-mut-XXXXXX")
cp -a /repo "$tmp/repo"
while [ $# -ge 2 ]; do
  before=$(md5sum "$tmp/repo/$1")
  sed -i "$2" "$tmp/repo/$1"
  [ "$before" = "$(md5sum "$tmp/repo/$1")" ] && echo "WARNING: sed did not change $1"
  shift 2
done
(cd "$tmp/repo" && GOFLAGS=-mod=mod GOPROXY=off go build ./... 2>&1 | head -5)
GVC_REPO="$tmp/repo" GVC_OUT="$tmp/out" /verif/bin/gvc check "$prop" 2>&1 | grep -v "counterexample" | cut -c1-230 | tail -${TAIL:-6}
echo "exit=$?"
rm -rf "$tmp"
