#!/bin/bash
# usage: tools/tryall.sh <prop> ...   quick re-test of every committed seed of the given properties (working tree + patch)
for p in "$@"; do
  for s in /verif/seeded/$p-*; do
    [ -f "$s/patch.diff" ] || continue
    grep -q '"\(rejected\|superseded\)": *"' "$s/meta.json" 2>/dev/null && continue
    /verif/tools/tryseed.sh "$s" "$p" 2>&1 | head -1
  done
done
