#!/bin/bash
# usage: tools/benigncheck.sh <dir-with-patch.diff> [props...]
# Applies a (supposedly behaviour-preserving) patch to a scratch copy of /repo's HEAD, builds it and runs the
# checks of all (or the given) properties on the copy. Any VIOLATION is an alarm on code where the property holds.
set -u
seed="$1"; shift; id=$(basename "$seed")
props="${*:-$(seq -f 'C%02g' 1 20)}"
export GOFLAGS=-mod=mod GOPROXY=off GOSUMDB=off GOTOOLCHAIN=local
tmp=$(mktemp -d "${TMPDIR:-/tmp}/gvc-benign-XXXXXX")
trap 'rm -rf "$tmp"' EXIT
mkdir -p "$tmp/chk" && git -C /repo archive HEAD | tar -x -C "$tmp/chk"
(cd "$tmp/chk" && (git apply "$seed/patch.diff" 2>/dev/null || patch -p1 --fuzz=3 -s < "$seed/patch.diff" >/dev/null 2>&1)) || { echo "$id: patch does not apply"; exit 2; }
(cd "$tmp/chk" && go build ./... >"$tmp/build.log" 2>&1) || { echo "$id: does not build"; head -5 "$tmp/build.log"; exit 2; }
alarms=0
for p in $props; do echo $p; done | xargs -P 6 -I{} sh -c "GVC_REPO='$tmp/chk' GVC_OUT='$tmp/out-{}' ${GVC_BIN:-/verif/bin/gvc} check {} > '$tmp/{}.log' 2>&1; echo \$? > '$tmp/{}.rc'"
for p in $props; do
  rc=$(cat "$tmp/$p.rc")
  if [ "$rc" != "0" ]; then
    alarms=$((alarms+1))
    echo "$id ALARM $p (exit $rc)"
    grep -E "failed obligation|^ERROR|VACUOUS|BROKEN" "$tmp/$p.log" | cut -c1-260 | head -6
  fi
done
echo "$id alarms=$alarms"
