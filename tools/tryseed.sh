#!/bin/bash
# usage: tools/tryseed.sh <seed-dir> [props...]   (quick loop: /repo WORKING TREE + patch, bin/gvc-dev if present)
seed="$1"; shift; id=$(basename "$seed"); props="${*:-${id%%-*}}"
G=/verif/bin/gvc; [ -x /verif/bin/gvc-dev ] && G=/verif/bin/gvc-dev
tmp=$(mktemp -d /tmp/gvc-try-XXXXXX); trap 'rm -rf "$tmp"' EXIT
mkdir -p $tmp/chk; rsync -a --exclude .git --exclude '/task' /repo/ $tmp/chk/
(cd $tmp/chk && (git apply "$seed/patch.diff" 2>/dev/null || patch -p1 --fuzz=3 -s < "$seed/patch.diff" >/dev/null 2>&1)) || { echo "$id: patch does not apply"; exit 2; }
for p in $props; do
  out=$(GVC_REPO=$tmp/chk GVC_OUT=$tmp/out $G check $p 2>&1)
  if echo "$out" | grep -q "^VIOLATION"; then echo "$id $p DETECTED"; echo "$out" | grep "failed obligation" | head -3 | cut -c1-250; else echo "$id $p missed"; echo "$out" | grep -E "ERROR|BROKEN" | head -3; fi
done
