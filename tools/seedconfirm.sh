#!/bin/bash
# usage: tools/seedconfirm.sh <seed-dir> [property]
# Confirms a seeded change in a scratch copy of /repo's HEAD: patch applies, builds, the full suite passes
# with it, the demonstration fails with it and passes without it; then runs the property check (gvc) on the
# mutated copy. Prints one summary line and writes <seed-dir>/confirm.json. The scratch copy is removed.
set -u
seed="$1"; id=$(basename "$seed"); prop="${2:-${id%%-*}}"
export GOFLAGS=-mod=mod GOPROXY=off GOSUMDB=off GOTOOLCHAIN=local
tmp=$(mktemp -d "${TMPDIR:-/tmp}/gvc-seed-XXXXXX")
trap 'rm -rf "$tmp"' EXIT
git -C /repo archive HEAD | tar -x -C "$tmp" 2>/dev/null || cp -a /repo/. "$tmp/"
mkdir -p "$tmp/clean" && git -C /repo archive HEAD | tar -x -C "$tmp/clean"
mkdir -p "$tmp/mut" && git -C /repo archive HEAD | tar -x -C "$tmp/mut"
applies=true
(cd "$tmp/mut" && git init -q . >/dev/null 2>&1; git apply "$seed/patch.diff" 2>"$tmp/apply.err") || (cd "$tmp/mut" && patch -p1 --fuzz=3 -s < "$seed/patch.diff" >"$tmp/apply.err" 2>&1) || applies=false
builds=false; suite=false; demo_fails=false; demo_passes=false
if $applies; then
  (cd "$tmp/mut" && go build ./... >"$tmp/build.log" 2>&1) && builds=true
fi
# copy demo files into both trees
if [ -d "$seed/demo" ]; then
  (cd "$seed/demo" && find . -type f ! -name RUN.txt | while read f; do mkdir -p "$tmp/mut/$(dirname "$f")" "$tmp/clean/$(dirname "$f")"; cp "$f" "$tmp/mut/$f"; cp "$f" "$tmp/clean/$f"; done)
fi
demo_cmd=$(python3 - "$seed/meta.json" <<'PY'
import json,sys,re
cmd=json.load(open(sys.argv[1])).get('demo_cmd','')
# keep only the test/program invocations: the demo files are copied into the scratch trees by this script
parts=[p.strip() for p in re.split(r'&&|;', cmd)]
keep=[p for p in parts if re.search(r'\bgo (test|run)\b', p) or p.startswith('./') or p.startswith('bash ') or p.startswith('sh ')]
print(' && '.join(keep))
PY
)
if $builds; then
  (cd "$tmp/mut" && timeout -s KILL 600 go test -vet=off -count=1 -timeout 8m ./... >"$tmp/suite.log" 2>&1 </dev/null)
  # the suite passes apart from the demo itself: run it WITHOUT the demo files for a clean verdict
  mkdir -p "$tmp/mut2" && git -C /repo archive HEAD | tar -x -C "$tmp/mut2"
  (cd "$tmp/mut2" && (git apply "$seed/patch.diff" 2>/dev/null || patch -p1 --fuzz=3 -s < "$seed/patch.diff" >/dev/null 2>&1); timeout -s KILL 900 go test -vet=off -count=1 -timeout 12m ./... >"$tmp/suite2.log" 2>&1 </dev/null) && suite=true
  if [ -n "$demo_cmd" ]; then
    (cd "$tmp/mut" && timeout -s KILL 300 bash -c "$demo_cmd" >"$tmp/demo_mut.log" 2>&1 </dev/null) || demo_fails=true
    (cd "$tmp/clean" && timeout -s KILL 300 bash -c "$demo_cmd" >"$tmp/demo_clean.log" 2>&1 </dev/null) && demo_passes=true
  fi
fi
check_out=""; detected=false
if $builds; then
  rm -rf "$tmp/mut2" "$tmp/clean"
  # the check runs on the mutated tree without the demo files (they are not part of the change)
  mkdir -p "$tmp/chk" && git -C /repo archive HEAD | tar -x -C "$tmp/chk"
  (cd "$tmp/chk" && (git apply "$seed/patch.diff" 2>/dev/null || patch -p1 --fuzz=3 -s < "$seed/patch.diff" >/dev/null 2>&1))
  check_out=$(GVC_REPO="$tmp/chk" GVC_OUT="$tmp/out" /verif/bin/gvc check "$prop" 2>&1)
  echo "$check_out" | grep -q "^VIOLATION property=$prop" && detected=true
fi
obl=$(echo "$check_out" | grep "failed obligation\|failed bounded check" | head -3 | sed -E 's/^ *failed obligation //; s/^ *failed bounded check /bounded check: /' | cut -c1-200 | tr '\n' '|')
python3 - "$seed" "$prop" "$applies" "$builds" "$suite" "$demo_fails" "$demo_passes" "$detected" "$obl" <<'PY'
import json,sys
seed,prop,applies,builds,suite,df,dp,det,obl=sys.argv[1:]
b=lambda s:s=="true"
json.dump({"property":prop,"patch_applies_to_HEAD":b(applies),"builds":b(builds),"suite_passes_with_change":b(suite),"demo_fails_with_change":b(df),"demo_passes_without_change":b(dp),"detected_by_check":b(det),"failed_obligations":[x for x in obl.split('|') if x]},open(seed+"/confirm.json","w"),indent=1)
PY
echo "$id prop=$prop applies=$applies builds=$builds suite=$suite demo_fails=$demo_fails demo_passes_clean=$demo_passes DETECTED=$detected"
[ -n "$obl" ] && echo "   $obl" | cut -c1-300
if ! $suite && $builds; then grep -E "^(--- FAIL|FAIL|ok )" "$tmp/suite2.log" | grep -v "^ok" | head -5; fi
if ! $applies; then head -3 "$tmp/apply.err"; fi
