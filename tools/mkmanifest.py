#!/usr/bin/env python3
"""Regenerates /verif/MANIFEST.json from tools/claims.json (one entry per property)."""
import json, os, sys
here = os.path.dirname(os.path.abspath(__file__))
root = os.path.dirname(here)
claims = json.load(open(os.path.join(here, "claims.json")))
props = [json.loads(l)["id"] for l in open(os.path.join(root, "properties.jsonl")) if l.strip()]
import subprocess
try:
    hook_commits = [l.split()[0] for l in subprocess.run(["git", "-C", "/repo", "log", "--reverse", "--format=%H %s"], capture_output=True, text=True).stdout.splitlines() if " verif:" in l[:48]]
except Exception:
    hook_commits = claims.get("_hook_commits", [])
checks, na = [], []
for pid in props:
    c = claims.get(pid, {})
    if c.get("claim"):
        checks.append({
            "property_id": pid,
            "quick_cmd": "./check %s quick" % pid,
            "thorough_cmd": "./check %s thorough" % pid,
            "evidence_file": "/verif/evidence/%s.json" % pid,
            "replay_cmd_template": "./bin/gvc replay {path}",
            "engine": "gvc",
            "level_claimed": {"category": "proof", "text": c["level_text"], "design_ref": c.get("design_ref", "DESIGN.md section 4")},
            "level_note": c["level_note"],
            "technique": c.get("technique", "contract-based deductive verification: weakest-precondition style VCs generated from go/ssa of the real code, discharged by z3/cvc5"),
        })
    else:
        na.append({"property_id": pid, "reason": c.get("reason", "check not built yet (work in progress); no claim is made")})
man = {
    "version": 1,
    "setup_cmd": "cd /verif && GOFLAGS=-mod=vendor GOPROXY=off GOSUMDB=off GOTOOLCHAIN=local CGO_ENABLED=0 go build -o bin/gvc ./cmd/gvc",
    "hooks": {
        "guard": "verif",
        "enable": "go/packages loads /repo with -tags=verif; the only guarded files are comment-only zz_contracts_verif.go files holding the //@ contracts (no run-time hooks; replays use go test -overlay)",
        "baseline_off_cmd": "cd /repo && GOFLAGS=-mod=mod go test -vet=off -count=1 -timeout 25m ./...",
        "source_commits": hook_commits,
        "add_only": True,
    },
    "engines": [{"name": "gvc", "path": "/verif/cmd/gvc", "serves_properties": [c["property_id"] for c in checks],
                 "kind_free_text": "deductive verifier for Go written for this task: go/packages+go/ssa of /repo's working tree -> per-function block-reachability verification conditions against //@ contracts (requires/ensures/loop invariants/site clauses/ghost facts) -> one SMT-LIB query per obligation -> z3 5.1.0, cvc5 1.0.3, z3 4.8.12"}],
    "checks": checks,
    "not_applicable": na,
    "notes": claims.get("_notes", ""),
}
json.dump(man, open(os.path.join(root, "MANIFEST.json"), "w"), indent=1)
print("wrote MANIFEST.json: %d checks, %d not_applicable" % (len(checks), len(na)))
