#!/usr/bin/env python3
"""Folds confirm.json (written by tools/seedconfirm.sh) into each seeded/<id>/meta.json under the key "confirmation"."""
import json, glob, os, subprocess, sys
root = os.path.dirname(os.path.dirname(os.path.abspath(__file__)))
head = subprocess.run(["git", "-C", "/repo", "rev-parse", "--short", "HEAD"], capture_output=True, text=True).stdout.strip()
for d in sorted(glob.glob(os.path.join(root, "seeded", "C*-*"))):
    mp = os.path.join(d, "meta.json")
    m = json.load(open(mp))
    try:
        c = json.load(open(os.path.join(d, "confirm.json")))
    except Exception:
        continue
    m["breaks_property"] = m.get("property")
    m["confirmation"] = {
        "how": "tools/seedconfirm.sh %s: scratch copies of /repo HEAD (git archive) under $TMPDIR, removed afterwards" % os.path.basename(d),
        "repo_head": head,
        "ran": [
            "git apply patch.diff (scratch copy)", "go build ./...",
            "go test -vet=off -count=1 ./...   (full suite on the changed copy, demo files absent)",
            "demo command on the changed copy (must fail) and on an unchanged copy (must pass)",
            "GVC_REPO=<changed copy> bin/gvc check %s   (must print VIOLATION)" % c.get("property"),
        ],
        "patch_applies_to_HEAD": c.get("patch_applies_to_HEAD"), "builds": c.get("builds"),
        "suite_passes_with_change": c.get("suite_passes_with_change"),
        "demo_fails_with_change": c.get("demo_fails_with_change"),
        "demo_passes_without_change": c.get("demo_passes_without_change"),
        "detected_by_check": c.get("detected_by_check"),
        "caught_by": c.get("failed_obligations"),
    }
    if os.path.exists(os.path.join(d, "patch.orig.diff")):
        m["confirmation"]["note"] = "patch.diff was rebased onto the repaired tree (a later fix: commit touched the same lines; 3-way merge, conflicts resolved by hand keeping the seeded defect); the sub-agent's original is patch.orig.diff"
    json.dump(m, open(mp, "w"), indent=1)
print("updated")
