#!/usr/bin/env python3
"""Prints the markdown table of seeded changes (from seeded/*/meta.json + confirm.json) and, with -w,
replaces the block between <!-- SEEDTABLE --> markers in DESIGN.md."""
import json, os, sys, glob, re
root = os.path.dirname(os.path.dirname(os.path.abspath(__file__)))
rows = ["| seed | what the change does | needs to manifest | caught by (first failed obligation) |", "|---|---|---|---|"]
for d in sorted(glob.glob(os.path.join(root, "seeded", "C*-*"))):
    sid = os.path.basename(d)
    m = json.load(open(os.path.join(d, "meta.json")))
    try:
        c = json.load(open(os.path.join(d, "confirm.json")))
    except Exception:
        c = {}
    what = (m.get("summary") or m.get("what") or m.get("description") or "").replace("\n", " ").replace("|", "/")
    what = what[:150] + ("…" if len(what) > 150 else "")
    needs = (m.get("needs_to_manifest") or m.get("needs") or "").replace("\n", " ").replace("|", "/")
    needs = needs[:110] + ("…" if len(needs) > 110 else "")
    ob = (c.get("failed_obligations") or ["—"])[0]
    ob = ob.replace("github.com/go-task/task/v3", "~").replace("|", "/")
    ob = re.sub(r"\s+at\s+\S+:\d+.*$", "", ob)[:130]
    ok = all(c.get(k) for k in ("builds", "suite_passes_with_change", "demo_fails_with_change", "demo_passes_without_change"))
    det = "**MISSED**" if not c.get("detected_by_check") else ""
    label = "" if ok else " (unconfirmed)"
    if m.get("superseded"):
        label = " (superseded)"
    if m.get("rejected"):
        label = " (rejected)"
    rows.append("| %s%s | %s | %s | %s `%s` |" % (sid, label, what, needs, det, ob))
table = "\n".join(rows)
if "-w" in sys.argv:
    p = os.path.join(root, "DESIGN.md")
    s = open(p).read()
    s = re.sub(r"<!-- SEEDTABLE -->.*?(<!-- /SEEDTABLE -->\n?)?(?=\nMisses on the way)", "<!-- SEEDTABLE -->\n" + table + "\n<!-- /SEEDTABLE -->\n", s, flags=re.S)
    open(p, "w").write(s)
else:
    print(table)
