#!/usr/bin/env python3
import json, jsonschema, glob, sys
jsonschema.validate(json.load(open('/verif/MANIFEST.json')), json.load(open('/root/.vp/MANIFEST.schema.json')))
es = json.load(open('/root/.vp/EVIDENCE.schema.json'))
bad = 0
for f in sorted(glob.glob('/verif/evidence/*.json')):
    d = json.load(open(f))
    jsonschema.validate(d, es)
    c = d['coverage']
    # the committed evidence must come from a clean run on the current tree
    if d.get('level') == 'proof' and (c.get('obligations') != c.get('discharged') or d.get('violations')):
        print('STALE/FAILED evidence:', f, c.get('obligations'), c.get('discharged'), d.get('violations'))
        bad += 1
print('manifest and', len(glob.glob('/verif/evidence/*.json')), 'evidence files valid')
sys.exit(1 if bad else 0)
