package gvc

import (
	"fmt"
	"go/token"
	"go/types"
	"os"
	"path"
	"sort"
	"strings"

	"golang.org/x/tools/go/ssa"
)

// ---- state_fields --------------------------------------------------------------------------------------------
//
//	state_fields T: f1 f2 ... [except <func> ...]      [Cnn]
//
// declares the COMPLETE list of fields of struct T (declared in the package of the contract file) through
// which a function of the repository may keep state once the object has been set up: every write to a field of
// T - a store to the field, to an element of the array, slice or map held in it, a delete from such a map, a
// call of a pointer-receiver method on the field (sync.Map.Store, atomic.Int32.Add, ...) - made in a function
// that is not one of T's declared set-up functions must be to a listed field. A new memo or cache added to T
// is then an obligation failure of the property, wherever the write is made (no annotation of the writing
// function is needed: every function of the repository is scanned).
//
// Set-up functions are named after `except`; closures inside a set-up function are set-up functions too.
type StateFields struct {
	Type    string // pkgpath.T ("globals" with Globals set: the package-level variables of the whole repository)
	Globals bool
	Fields  map[string]bool
	Except  []string
	Tags    []string
	File    string
	Line    int
}

type fieldWrite struct {
	fn    string
	field string
	how   string
	pos   token.Pos
}

// fieldWrites lists every write made by fn through a field of the struct type named typ ("pkgpath.T").
func fieldWrites(fn *ssa.Function, typ string) []fieldWrite {
	var out []fieldWrite
	// rootField: v is (derived from) the address or the loaded value of a field of typ
	var rootField func(v ssa.Value, depth int) (string, bool)
	rootField = func(v ssa.Value, depth int) (string, bool) {
		if depth > 12 {
			return "", false
		}
		switch x := v.(type) {
		case *ssa.FieldAddr:
			st := deref(x.X.Type())
			if s, ok := structOf(st); ok && shortType(st) == typ {
				_ = s
				if _, fresh := x.X.(*ssa.Alloc); fresh {
					return "", false // a composite literal / new object being built in this function
				}
				return recFieldName(st, x.Field), true
			}
			return rootField(x.X, depth+1)
		case *ssa.Field:
			return rootField(x.X, depth+1)
		case *ssa.IndexAddr:
			return rootField(x.X, depth+1)
		case *ssa.UnOp:
			if x.Op == token.MUL {
				return rootField(x.X, depth+1)
			}
		case *ssa.Slice:
			return rootField(x.X, depth+1)
		case *ssa.ChangeType:
			return rootField(x.X, depth+1)
		case *ssa.Convert:
			return rootField(x.X, depth+1)
		}
		return "", false
	}
	add := func(f, how string, pos token.Pos) {
		out = append(out, fieldWrite{fn: CanonName(fn), field: f, how: how, pos: pos})
	}
	for _, b := range fn.Blocks {
		for _, ins := range b.Instrs {
			switch x := ins.(type) {
			case *ssa.Store:
				if f, ok := rootField(x.Addr, 0); ok {
					add(f, "store", x.Pos())
				}
			case *ssa.MapUpdate:
				if f, ok := rootField(x.Map, 0); ok {
					add(f, "map store", x.Pos())
				}
			case ssa.CallInstruction:
				cc := x.Common()
				if bi, ok := cc.Value.(*ssa.Builtin); ok {
					if (bi.Name() == "delete" || bi.Name() == "clear") && len(cc.Args) > 0 {
						if f, ok := rootField(cc.Args[0], 0); ok {
							add(f, bi.Name(), x.Pos())
						}
					}
					continue
				}
				// pointer-receiver method of a type from outside the repository's own packages called on the
				// field itself (sync.Map, atomic.*, xsync, bytes.Buffer ...): mutexes are not state
				callee := cc.StaticCallee()
				if callee == nil || callee.Signature.Recv() == nil || len(cc.Args) == 0 {
					continue
				}
				if _, isPtr := callee.Signature.Recv().Type().(*types.Pointer); !isPtr {
					continue
				}
				fa, ok := cc.Args[0].(*ssa.FieldAddr)
				if !ok {
					continue
				}
				f, ok := rootField(fa, 0)
				if !ok {
					continue
				}
				rt := shortType(deref(fa.Type()))
				if strings.HasPrefix(rt, "sync.Mutex") || strings.HasPrefix(rt, "sync.RWMutex") || strings.HasPrefix(rt, "sync.Once") {
					continue
				}
				if readOnlyMethod[callee.Name()] {
					continue
				}
				add(f, "call "+callee.Name(), x.Pos())
			}
		}
	}
	return out
}

var readOnlyMethod = map[string]bool{"Load": true, "Range": true, "Len": true, "String": true, "Get": true, "RLock": true, "RUnlock": true,
	"Lock": true, "Unlock": true, "TryLock": true}

// stateFieldObligations: one obligation per offending write (none when the rule holds).
func (w *World) stateFieldObligations(prop string) []*Obligation {
	var out []*Obligation
	for _, sf := range w.C.StateFields {
		if !hasTag(sf.Tags, prop) {
			continue
		}
		isSetup := func(name string) bool { return matchesFuncGlob(name, sf.Except) }
		var names []string
		for n := range w.P.Funcs {
			names = append(names, n)
		}
		sort.Strings(names)
		seen := 0
		cnt := map[string]int{}
		for _, n := range names {
			fn := w.P.Funcs[n]
			if !w.P.InRepo(FuncPkgPath(fn)) || len(fn.Blocks) == 0 {
				continue
			}
			ws := fieldWrites(fn, sf.Type)
			if sf.Globals {
				ws = w.globalWrites(fn)
			}
			if !sf.Globals {
				seen += touches(fn, sf.Type)
			}
			for _, fw := range ws {
				seen++
				if sf.Fields[fw.field] || isSetup(n) {
					continue
				}
				cnt[n+fw.field]++
				o := &Obligation{Name: fmt.Sprintf("%s/state-field/%s.%s#%d", n, shortName(sf.Type), fw.field, cnt[n+fw.field]), Func: n, Kind: "state-field",
					Tags: sf.Tags, Status: "failed", File: sf.File, Line: sf.Line,
					Text:   "state_fields " + shortName(sf.Type) + ": only the listed fields are written after set-up",
					SrcPos: w.P.posStr(fw.pos),
					Detail: map[string]string{"why": fmt.Sprintf("%s writes field %s of %s (%s), which is not declared as run-time state", shortName(n), fw.field, shortName(sf.Type), fw.how)}}
				out = append(out, o)
			}
		}
		// the rule itself counts as one discharged obligation when nothing offends (and it must have seen writes:
		// a rule that scans nothing is vacuous)
		st := "discharged"
		why := fmt.Sprintf("%d field accesses / writes of %s scanned", seen, shortName(sf.Type))
		if seen == 0 {
			st = "failed"
			why = "vacuous: no access to any field of " + sf.Type + " found in the repository"
		}
		out = append(out, &Obligation{Name: sf.Type + "/state-fields-rule", Func: sf.Type, Kind: "state-field", Tags: sf.Tags, Status: st,
			File: sf.File, Line: sf.Line, Text: "state_fields " + shortName(sf.Type), Detail: map[string]string{"why": why}, Solver: "ssa-scan"})
	}
	return out
}

func cmdWriters(args []string) int {
	w, err := loadWorld()
	if err != nil {
		fmt.Fprintln(os.Stderr, err)
		return 2
	}
	if len(args) == 0 {
		fmt.Fprintln(os.Stderr, "usage: gvc writers <pkgpath.Type>")
		return 2
	}
	var names []string
	for n := range w.P.Funcs {
		names = append(names, n)
	}
	sort.Strings(names)
	for _, n := range names {
		fn := w.P.Funcs[n]
		if !w.P.InRepo(FuncPkgPath(fn)) || len(fn.Blocks) == 0 {
			continue
		}
		ws := fieldWrites(fn, args[0])
		if args[0] == "globals" {
			ws = w.globalWrites(fn)
		}
		for _, fw := range ws {
			fmt.Printf("%-70s %-22s %-12s %s\n", shortName(n), fw.field, fw.how, w.P.posStr(fw.pos))
		}
	}
	return 0
}

func (p *Program) posStr(pos token.Pos) string {
	if !pos.IsValid() {
		return ""
	}
	pp := p.SSA.Fset.Position(pos)
	f := pp.Filename
	if strings.HasPrefix(f, p.RepoDir+"/") {
		f = f[len(p.RepoDir)+1:]
	}
	return fmt.Sprintf("%s:%d", f, pp.Line)
}

// globalWrites lists writes made by fn to (or through) package-level variables of the repository.
func (w *World) globalWrites(fn *ssa.Function) []fieldWrite {
	var out []fieldWrite
	var root func(v ssa.Value, depth int) (string, bool)
	root = func(v ssa.Value, depth int) (string, bool) {
		if depth > 12 {
			return "", false
		}
		switch x := v.(type) {
		case *ssa.Global:
			if x.Pkg != nil && w.P.InRepo(x.Pkg.Pkg.Path()) {
				return x.Pkg.Pkg.Path() + "." + x.Name(), true
			}
		case *ssa.FieldAddr:
			return root(x.X, depth+1)
		case *ssa.Field:
			return root(x.X, depth+1)
		case *ssa.IndexAddr:
			return root(x.X, depth+1)
		case *ssa.UnOp:
			if x.Op == token.MUL {
				return root(x.X, depth+1)
			}
		case *ssa.Slice:
			return root(x.X, depth+1)
		}
		return "", false
	}
	for _, b := range fn.Blocks {
		for _, ins := range b.Instrs {
			switch x := ins.(type) {
			case *ssa.Store:
				if g, ok := root(x.Addr, 0); ok {
					out = append(out, fieldWrite{fn: CanonName(fn), field: g, how: "store", pos: x.Pos()})
				}
			case *ssa.MapUpdate:
				if g, ok := root(x.Map, 0); ok {
					out = append(out, fieldWrite{fn: CanonName(fn), field: g, how: "map store", pos: x.Pos()})
				}
			case ssa.CallInstruction:
				cc := x.Common()
				if bi, ok := cc.Value.(*ssa.Builtin); ok && (bi.Name() == "delete" || bi.Name() == "clear") && len(cc.Args) > 0 {
					if g, ok := root(cc.Args[0], 0); ok {
						out = append(out, fieldWrite{fn: CanonName(fn), field: g, how: bi.Name(), pos: x.Pos()})
					}
					continue
				}
				callee := cc.StaticCallee()
				if callee == nil || callee.Signature.Recv() == nil || len(cc.Args) == 0 || readOnlyMethod[callee.Name()] {
					continue
				}
				if _, isPtr := callee.Signature.Recv().Type().(*types.Pointer); !isPtr {
					continue
				}
				if g, ok := cc.Args[0].(*ssa.Global); ok && g.Pkg != nil && w.P.InRepo(g.Pkg.Pkg.Path()) {
					rt := shortType(deref(g.Type()))
					if strings.HasPrefix(rt, "sync.Mutex") || strings.HasPrefix(rt, "sync.RWMutex") {
						continue
					}
					out = append(out, fieldWrite{fn: CanonName(fn), field: g.Pkg.Pkg.Path() + "." + g.Name(), how: "call " + callee.Name(), pos: x.Pos()})
				}
			}
		}
	}
	return out
}

// matchesFuncGlob: name ("pkgpath.(*T).m$1") matches one of the patterns, which are written relative to the
// package ("(*T).m", "(*T).setup*", "*.ApplyToExecutor") or with the last element of the package path
// ("experiments.Parse"); a closure belongs to the function it is declared in.
func matchesFuncGlob(name string, pats []string) bool {
	short := shortName(name) // "v3.(*T).m$1"
	rel := short
	if i := strings.Index(short, "."); i >= 0 {
		rel = short[i+1:]
	}
	cands := []string{short, rel}
	for _, c := range []string{short, rel} {
		if i := strings.Index(c, "$"); i >= 0 {
			cands = append(cands, c[:i])
		}
	}
	for _, p := range pats {
		for _, c := range cands {
			if ok, _ := path.Match(p, c); ok {
				return true
			}
		}
	}
	return false
}

// ---- callers ---------------------------------------------------------------------------------------------------
//
//	callers <callee> <callee> ... : <func> <func> ...            [Cnn]
//
// an effect is confined to the functions that are under contract for it: the listed callees (functions from
// outside the repository as "os.WriteFile", or of the repository as "execext.RunCommand", "(*Executor).mkdir")
// are called - statically, or taken as a function value - only from the listed functions (same patterns as
// state_fields). Every function of the repository is scanned, so a NEW call site anywhere is an obligation
// failure of the property; the listed callers are where the contracts with the guards live.
type CallersRule struct {
	Callees  []string
	Allowed  []string
	AbsentOK bool // no call of the callees anywhere is fine (the rule keeps them away from everything but Allowed)
	Tags     []string
	File     string
	Line     int
}

func calleeMatches(fn *ssa.Function, pats []string) (string, bool) {
	if fn == nil {
		return "", false
	}
	name := CanonName(fn)
	short := shortName(name)
	// "os.WriteFile" is its own canonical name; repository functions are written relative to their package too
	for _, p := range pats {
		if p == name || p == short {
			return p, true
		}
	}
	// relative to the package ("(*T).m"), never a closure of the function named
	rel := short
	if i := strings.Index(short, "."); i >= 0 {
		rel = short[i+1:]
	}
	for _, p := range pats {
		for _, c := range []string{short, rel} {
			if ok, _ := path.Match(p, c); ok {
				return short, true
			}
		}
	}
	return "", false
}

func (w *World) callersObligations(prop string) []*Obligation {
	var out []*Obligation
	var names []string
	for n := range w.P.Funcs {
		names = append(names, n)
	}
	sort.Strings(names)
	for _, cr := range w.C.Callers {
		if !hasTag(cr.Tags, prop) {
			continue
		}
		seen := 0
		count := map[string]int{}
		for _, n := range names {
			fn := w.P.Funcs[n]
			if !w.P.InRepo(FuncPkgPath(fn)) || len(fn.Blocks) == 0 {
				continue
			}
			for _, b := range fn.Blocks {
				for _, ins := range b.Instrs {
					var hit string
					var pos token.Pos
					if ci, ok := ins.(ssa.CallInstruction); ok {
						if c, ok := calleeMatches(ci.Common().StaticCallee(), cr.Callees); ok {
							hit, pos = c, ins.Pos()
						} else if cc := ci.Common(); cc.IsInvoke() {
							// a call through an interface: "(RemoteNode).ReadContext"
							if nt, ok := cc.Value.Type().(*types.Named); ok && nt.Obj().Pkg() != nil {
								full := nt.Obj().Pkg().Path() + ".(" + nt.Obj().Name() + ")." + cc.Method.Name()
								rel := "(" + nt.Obj().Name() + ")." + cc.Method.Name()
								for _, p := range cr.Callees {
									if p == full || p == rel || p == shortName(full) {
										hit, pos = rel, ins.Pos()
									}
								}
							}
						}
					}
					if _, isDbg := ins.(*ssa.DebugRef); isDbg {
						continue
					}
					if hit == "" {
						// the function taken as a value (passed on, stored, bound as a method value)
						for _, op := range ins.Operands(nil) {
							if op == nil || *op == nil {
								continue
							}
							if f, ok := (*op).(*ssa.Function); ok {
								if ci, isCall := ins.(ssa.CallInstruction); isCall && ci.Common().Value == *op {
									continue
								}
								if c, ok := calleeMatches(f, cr.Callees); ok {
									hit, pos = c+" (as a value)", ins.Pos()
								}
							}
						}
					}
					if hit == "" {
						continue
					}
					seen++
					if matchesFuncGlob(n, cr.Allowed) || w.allowedVia(n, cr.Allowed, 0) {
						continue
					}
					count[n+hit]++
					o := &Obligation{Name: fmt.Sprintf("%s/callers/%s#%d", n, hit, count[n+hit]), Func: n, Kind: "callers",
						Tags: cr.Tags, Status: "failed", File: cr.File, Line: cr.Line, SrcPos: w.P.posStr(pos),
						Text:   "callers " + strings.Join(cr.Callees, " ") + ": called only from the functions under contract for it",
						Detail: map[string]string{"why": shortName(n) + " calls " + hit + " but is not one of the functions declared (and under contract) for this effect"}}
					out = append(out, o)
				}
			}
		}
		st, why := "discharged", fmt.Sprintf("%d call sites scanned", seen)
		if seen == 0 && cr.AbsentOK {
			why = "no call of any listed function in the repository (allowed by maybe-absent)"
		} else if seen == 0 {
			st, why = "failed", "vacuous: no call of any listed function found in the repository"
		}
		out = append(out, &Obligation{Name: "callers/" + cr.Callees[0] + "/rule", Func: "callers " + cr.Callees[0], Kind: "callers", Tags: cr.Tags, Status: st,
			File: cr.File, Line: cr.Line, Text: "callers " + strings.Join(cr.Callees, " "), Detail: map[string]string{"why": why}, Solver: "ssa-scan"})
	}
	return out
}

// ---- map_ranges --------------------------------------------------------------------------------------------------
//
//	map_ranges : <func> <func> ...                     [Cnn]
//
// Go randomises the iteration order of its maps. The listed functions are the only ones of the repository that
// range over a Go map (each of them either does not depend on the order or sorts afterwards, which its own contract
// says); a NEW map iteration anywhere else - in a decoder, a merge step, a helper a change adds - fails here.
func (w *World) mapRangeObligations(prop string) []*Obligation {
	var out []*Obligation
	var names []string
	for n := range w.P.Funcs {
		names = append(names, n)
	}
	sort.Strings(names)
	for _, mr := range w.C.MapRanges {
		if !hasTag(mr.Tags, prop) {
			continue
		}
		seen := 0
		cnt := map[string]int{}
		for _, n := range names {
			fn := w.P.Funcs[n]
			if !w.P.InRepo(FuncPkgPath(fn)) || len(fn.Blocks) == 0 {
				continue
			}
			for _, b := range fn.Blocks {
				for _, ins := range b.Instrs {
					r, ok := ins.(*ssa.Range)
					if !ok {
						continue
					}
					if _, isMap := r.X.Type().Underlying().(*types.Map); !isMap {
						continue
					}
					seen++
					if matchesFuncGlob(n, mr.Allowed) || w.allowedVia(n, mr.Allowed, 0) {
						continue
					}
					cnt[n]++
					out = append(out, &Obligation{Name: fmt.Sprintf("%s/map-range#%d", n, cnt[n]), Func: n, Kind: "map-range", Tags: mr.Tags,
						Status: "failed", File: mr.File, Line: mr.Line, SrcPos: w.P.posStr(r.Pos()),
						Text:   "map_ranges: Go maps are ranged over only in the listed functions",
						Detail: map[string]string{"why": shortName(n) + " ranges over a Go map (" + typeKey(r.X.Type()) + "): the iteration order differs from run to run"}})
				}
			}
		}
		st, why := "discharged", fmt.Sprintf("%d map iterations scanned", seen)
		if seen == 0 {
			st, why = "failed", "vacuous: no map iteration found in the repository"
		}
		out = append(out, &Obligation{Name: "map_ranges/rule", Func: "map_ranges", Kind: "map-range", Tags: mr.Tags, Status: st,
			File: mr.File, Line: mr.Line, Text: "map_ranges", Detail: map[string]string{"why": why}, Solver: "ssa-scan"})
	}
	return out
}

func cmdMapRanges() int {
	w, err := loadWorld()
	if err != nil {
		fmt.Fprintln(os.Stderr, err)
		return 2
	}
	var names []string
	for n := range w.P.Funcs {
		names = append(names, n)
	}
	sort.Strings(names)
	for _, n := range names {
		fn := w.P.Funcs[n]
		if !w.P.InRepo(FuncPkgPath(fn)) {
			continue
		}
		for _, b := range fn.Blocks {
			for _, ins := range b.Instrs {
				if r, ok := ins.(*ssa.Range); ok {
					if _, isMap := r.X.Type().Underlying().(*types.Map); isMap {
						fmt.Printf("%-70s %-40s %s\n", shortName(n), typeKey(r.X.Type()), w.P.posStr(r.Pos()))
					}
				}
			}
		}
	}
	return 0
}

// staticCallers: for every repository function, the functions that call it statically (or take it as a value:
// recorded as the pseudo-caller "<value>", which is never allowed).
func (w *World) staticCallers() map[*ssa.Function][]string {
	if w.callersOf != nil {
		return w.callersOf
	}
	out := map[*ssa.Function][]string{}
	for n, fn := range w.P.Funcs {
		if !w.P.InRepo(FuncPkgPath(fn)) {
			continue
		}
		for _, b := range fn.Blocks {
			for _, ins := range b.Instrs {
				if _, isDbg := ins.(*ssa.DebugRef); isDbg {
					continue
				}
				var callee *ssa.Function
				if ci, ok := ins.(ssa.CallInstruction); ok {
					callee = ci.Common().StaticCallee()
					if callee != nil {
						out[callee] = append(out[callee], n)
					}
				}
				for _, op := range ins.Operands(nil) {
					if op == nil || *op == nil {
						continue
					}
					if f, ok := (*op).(*ssa.Function); ok && f != callee {
						out[f] = append(out[f], "<value>")
					}
				}
			}
		}
	}
	w.callersOf = out
	return out
}

// allowedVia: n is not listed itself, but it is a private helper (unexported, not a closure, never taken as a
// value) that is called only from listed functions - or from other such helpers - so the effect stays confined to
// the listed functions, whose own contracts (frames, dry-flag clauses) then cover what the helper does.
func (w *World) allowedVia(n string, allowed []string, depth int) bool {
	fn := w.P.Funcs[n]
	if fn == nil || depth > 3 || fn.Parent() != nil {
		return false
	}
	if obj := fn.Object(); obj == nil || obj.Exported() {
		return false
	}
	// ... that has no contract of its own and is verified INLINE at each of its call sites (loop-free, small): the
	// site clauses and frames of the listed callers then apply to its body
	if w.C.Funcs[n] != nil {
		return false
	}
	if w.probe == nil {
		for _, f := range w.P.Funcs {
			if w.P.InRepo(FuncPkgPath(f)) && len(f.Blocks) > 0 {
				w.probe = NewVC(w.P, w.C, f, nil)
				break
			}
		}
	}
	if w.probe == nil || !w.probe.inlinable(fn) {
		return false
	}
	callers := w.staticCallers()[fn]
	if len(callers) == 0 {
		return false
	}
	for _, c := range callers {
		if c == "<value>" {
			return false
		}
		if matchesFuncGlob(c, allowed) {
			continue
		}
		if c == n || !w.allowedVia(c, allowed, depth+1) {
			return false
		}
	}
	return true
}

// cmdSoleSites lists the "site X#1 requires" clauses whose function has exactly ONE static site of X: for those
// "#0" (every site) says the same on the current tree and also covers a site of X that a change adds later.
func cmdSoleSites() int {
	w, err := loadWorld()
	if err != nil {
		fmt.Fprintln(os.Stderr, err)
		return 2
	}
	var names []string
	for n := range w.C.Funcs {
		names = append(names, n)
	}
	sort.Strings(names)
	for _, n := range names {
		fc := w.C.Funcs[n]
		fn := w.P.Funcs[n]
		if fn == nil || fc.External || fc.Trusted {
			continue
		}
		vc := NewVC(w.P, w.C, fn, fc)
		counts := map[string]int{}
		vc.walkInstrs(fn, "", 0, nil, func(x ssa.Instruction, path string) {
			name := ""
			switch x := x.(type) {
			case ssa.CallInstruction:
				if bi, isB := x.Common().Value.(*ssa.Builtin); isB {
					name = bi.Name()
				} else {
					name, _ = vc.calleeName(x.Common())
				}
			case *ssa.Store:
				name = storeSiteName(x)
			case *ssa.MapUpdate:
				name = "mapstore"
			}
			if name == "" {
				return
			}
			for _, c := range fc.Sites {
				if c.Kind == "site-requires" && c.SiteN == 1 && (name == c.Site || matchCallee(name, c.Site)) {
					counts[c.Site+"\x00"+name+"\x00"+fmt.Sprint(x.Pos())]++
				}
			}
		})
		per := map[string]int{}
		for k := range counts {
			per[strings.SplitN(k, "\x00", 2)[0]]++
		}
		seen := map[string]bool{}
		for _, c := range fc.Sites {
			if c.Kind == "site-requires" && c.SiteN == 1 && per[c.Site] == 1 && !seen[fmt.Sprint(c.File, c.Line)] {
				seen[fmt.Sprint(c.File, c.Line)] = true
				fmt.Printf("%s:%d\t%s\t%s\n", c.File, c.Line, shortName(n), c.Site)
			}
		}
	}
	return 0
}

// touches: number of field accesses (reads or writes) of the struct type in fn - the rule has looked at something.
func touches(fn *ssa.Function, typ string) int {
	n := 0
	for _, b := range fn.Blocks {
		for _, ins := range b.Instrs {
			if fa, ok := ins.(*ssa.FieldAddr); ok {
				if st := deref(fa.X.Type()); shortType(st) == typ {
					n++
				}
			}
		}
	}
	return n
}

// ---- spawned_writes -------------------------------------------------------------------------------------------
//
//	spawned_writes : except <func> ...                 [Cnn]
//
// A closure that is started in another goroutine - by a go statement or by a callee declared "spawns"
// (errgroup.Go) - writes no variable it captured from the function that made it, unless the write comes after a
// Lock() in the closure: a captured variable written by several such goroutines (or by one while its maker reads
// it) is a data race that no lock discipline of the declared shared tables would notice. Every function of the
// repository is scanned; the functions named after except (watch mode) are out of the rule's scope.
func (w *World) spawnedWriteObligations(prop string) []*Obligation {
	var out []*Obligation
	var names []string
	for n := range w.P.Funcs {
		names = append(names, n)
	}
	sort.Strings(names)
	for _, sr := range w.C.SpawnedWrites {
		if !hasTag(sr.Tags, prop) {
			continue
		}
		seen := 0
		for _, n := range names {
			fn := w.P.Funcs[n]
			if !w.P.InRepo(FuncPkgPath(fn)) || len(fn.Blocks) == 0 || matchesFuncGlob(n, sr.Allowed) {
				continue
			}
			for _, b := range fn.Blocks {
				for _, ins := range b.Instrs {
					var clo *ssa.MakeClosure
					switch x := ins.(type) {
					case *ssa.Go:
						clo, _ = x.Call.Value.(*ssa.MakeClosure)
					case *ssa.Call:
						callee := x.Call.StaticCallee()
						if callee == nil {
							continue
						}
						fc := w.C.Funcs[CanonName(callee)]
						if fc == nil || !fc.Spawns {
							continue
						}
						for _, a := range x.Call.Args {
							if mc, ok := a.(*ssa.MakeClosure); ok {
								clo = mc
							}
						}
					}
					if clo == nil {
						continue
					}
					seen++
					cf := clo.Fn.(*ssa.Function)
					cnt := 0
					// ... and appends to no slice held in an object it shares with its maker (append writes into the
					// backing array whenever there is room: two goroutines appending to the same field write the same cell)
					for _, sa := range w.sharedAppends(cf, 0, map[*ssa.Function]bool{}) {
						cnt++
						out = append(out, &Obligation{Name: fmt.Sprintf("%s/spawned-append#%d", CanonName(cf), cnt), Func: CanonName(cf), Kind: "spawned-write",
							Tags: sr.Tags, Status: "failed", File: sr.File, Line: sr.Line, SrcPos: w.P.posStr(sa.Pos()),
							Text:   "spawned_writes: a closure started in another goroutine appends to no slice of a shared object without a lock",
							Detail: map[string]string{"why": shortName(CanonName(cf)) + " runs in its own goroutine and (itself or through " + shortName(CanonName(sa.Parent())) + ") appends to a slice that is a field of an object it did not make: append writes into the shared backing array when there is room"}})
					}
					for _, cb := range cf.Blocks {
						locked := false
						for _, ci := range cb.Instrs {
							if c, ok := ci.(*ssa.Call); ok {
								if f := c.Call.StaticCallee(); f != nil && (f.Name() == "Lock") {
									locked = true
								}
							}
							var target ssa.Value
							switch s := ci.(type) {
							case *ssa.Store:
								target = s.Addr
							case *ssa.MapUpdate:
								if u, ok := s.Map.(*ssa.UnOp); ok {
									target = u.X
								}
							}
							fv, isFree := target.(*ssa.FreeVar)
							if !isFree || locked || lockDominates(cf, cb) {
								continue
							}
							if !sharedBinding(clo, fv) {
								continue // a variable that only this one goroutine uses after it was started
							}
							cnt++
							out = append(out, &Obligation{Name: fmt.Sprintf("%s/spawned-write/%s#%d", CanonName(cf), fv.Name(), cnt), Func: CanonName(cf), Kind: "spawned-write",
								Tags: sr.Tags, Status: "failed", File: sr.File, Line: sr.Line, SrcPos: w.P.posStr(ci.Pos()),
								Text:   "spawned_writes: a closure started in another goroutine writes no captured variable without a lock",
								Detail: map[string]string{"why": shortName(CanonName(cf)) + " runs in its own goroutine and writes the variable " + fv.Name() + " of " + shortName(n) + " without holding a lock"}})
						}
					}
				}
			}
		}
		st, why := "discharged", fmt.Sprintf("%d spawned closures scanned", seen)
		if seen == 0 {
			st, why = "failed", "vacuous: no spawned closure found in the repository"
		}
		out = append(out, &Obligation{Name: "spawned_writes/rule", Func: "spawned_writes", Kind: "spawned-write", Tags: sr.Tags, Status: st,
			File: sr.File, Line: sr.Line, Text: "spawned_writes", Detail: map[string]string{"why": why}, Solver: "ssa-scan"})
	}
	return out
}

// lockDominates: some block that dominates b (other than b) contains a call of a Lock method.
func lockDominates(fn *ssa.Function, b *ssa.BasicBlock) bool {
	for _, d := range fn.Blocks {
		if d == b || !d.Dominates(b) {
			continue
		}
		for _, ins := range d.Instrs {
			if c, ok := ins.(*ssa.Call); ok {
				if f := c.Call.StaticCallee(); f != nil && f.Name() == "Lock" {
					return true
				}
			}
		}
	}
	return false
}

// sharedBinding: the variable bound to fv when clo is made may be used by someone else than the one goroutine
// started with clo: it is declared outside a loop that makes the closure (so several goroutines get the same
// variable), or the maker itself uses it after making the closure, or it is not a local of the maker at all.
func sharedBinding(clo *ssa.MakeClosure, fv *ssa.FreeVar) bool {
	cf := clo.Fn.(*ssa.Function)
	idx := -1
	for i, f := range cf.FreeVars {
		if f == fv {
			idx = i
		}
	}
	if idx < 0 || idx >= len(clo.Bindings) {
		return true
	}
	al, ok := clo.Bindings[idx].(*ssa.Alloc)
	if !ok {
		return true
	}
	maker := clo.Parent()
	mb := clo.Block()
	// a loop of the maker that contains the closure creation but not the declaration of the variable
	for _, b := range maker.Blocks {
		for _, h := range b.Succs {
			if !h.Dominates(b) {
				continue
			}
			blocks := map[*ssa.BasicBlock]bool{h: true}
			stack := []*ssa.BasicBlock{b}
			for len(stack) > 0 {
				x := stack[len(stack)-1]
				stack = stack[:len(stack)-1]
				if blocks[x] {
					continue
				}
				blocks[x] = true
				stack = append(stack, x.Preds...)
			}
			if blocks[mb] && !blocks[al.Block()] {
				return true
			}
		}
	}
	// uses of the variable by the maker that may come after the closure was made
	reach := map[*ssa.BasicBlock]bool{}
	stack := append([]*ssa.BasicBlock{}, mb.Succs...)
	for len(stack) > 0 {
		x := stack[len(stack)-1]
		stack = stack[:len(stack)-1]
		if reach[x] {
			continue
		}
		reach[x] = true
		stack = append(stack, x.Succs...)
	}
	if refs := al.Referrers(); refs != nil {
		for _, r := range *refs {
			if _, isDbg := r.(*ssa.DebugRef); isDbg || r == ssa.Instruction(clo) {
				continue
			}
			if other, isMC := r.(*ssa.MakeClosure); isMC && other != clo {
				return true // captured by another closure as well
			}
			rb := r.Block()
			if reach[rb] {
				return true
			}
			if rb == mb {
				after := false
				for _, x := range mb.Instrs {
					if x == ssa.Instruction(clo) {
						after = true
					} else if x == r && after {
						return true
					}
				}
			}
		}
	}
	return false
}

// ---- yield protocol (C16) ------------------------------------------------------------------------------------
//
// A range-over-func iterator must stop calling yield once yield has returned false: the Go runtime answers a further
// call with the panic "range function continued iteration after function for loop body returned false". The rule
// is built in (no clause): every function of the repository that has a parameter of a func(...) bool type and no
// results of its own (the shape of an iter.Seq / iter.Seq2 body) is scanned. For each call of that parameter the
// result must decide a branch, and no call of the parameter may be reachable from the "false" side of that branch
// (a break that only leaves an inner loop is the classic slip). A result that is dropped is a violation too.
func (w *World) yieldProtocolObligations(prop string) []*Obligation {
	if prop != "C16" {
		return nil
	}
	var out []*Obligation
	var names []string
	for n := range w.P.Funcs {
		names = append(names, n)
	}
	sort.Strings(names)
	scanned := 0
	for _, n := range names {
		fn := w.P.Funcs[n]
		if !w.P.InRepo(FuncPkgPath(fn)) || len(fn.Blocks) == 0 || fn.Signature.Results().Len() != 0 {
			continue
		}
		var yield *ssa.Parameter
		for _, p := range fn.Params {
			if sig, ok := p.Type().Underlying().(*types.Signature); ok && sig.Results().Len() == 1 {
				if b, isB := sig.Results().At(0).Type().Underlying().(*types.Basic); isB && b.Kind() == types.Bool {
					yield = p
				}
			}
		}
		if yield == nil {
			continue
		}
		// the functions in which the parameter can be called: the iterator itself and, when it ranges over another
		// iterator, the synthetic loop bodies that capture the parameter (through the cell the compiler puts it in)
		type site struct {
			fn    *ssa.Function
			isYld func(v ssa.Value) bool
			body  bool // a synthetic loop body: "return true" continues the enclosing iteration
		}
		sites := []site{{fn, func(v ssa.Value) bool { return v == ssa.Value(yield) }, false}}
		var cell *ssa.Alloc
		if refs := yield.Referrers(); refs != nil {
			for _, r := range *refs {
				if st, ok := r.(*ssa.Store); ok && st.Val == ssa.Value(yield) {
					if al, isAl := st.Addr.(*ssa.Alloc); isAl {
						cell = al
					}
				}
			}
		}
		if cell != nil {
			sites[0].isYld = func(v ssa.Value) bool {
				if v == ssa.Value(yield) {
					return true
				}
				ld, ok := v.(*ssa.UnOp)
				return ok && ld.Op == token.MUL && ld.X == ssa.Value(cell)
			}
			var addInner func(outer *ssa.Function, holder ssa.Value, depth int)
			addInner = func(outer *ssa.Function, holder ssa.Value, depth int) {
				if depth > 3 {
					return
				}
				for _, ob := range outer.Blocks {
					for _, oi := range ob.Instrs {
						mc, ok := oi.(*ssa.MakeClosure)
						if !ok {
							continue
						}
						inner, _ := mc.Fn.(*ssa.Function)
						if inner == nil || inner.Synthetic == "" {
							continue
						}
						for i, bnd := range mc.Bindings {
							if bnd == holder && i < len(inner.FreeVars) {
								fv := inner.FreeVars[i]
								sites = append(sites, site{inner, func(v ssa.Value) bool {
									ld, ok := v.(*ssa.UnOp)
									return ok && ld.Op == token.MUL && ld.X == ssa.Value(fv)
								}, true})
								addInner(inner, fv, depth+1)
							}
						}
					}
				}
			}
			addInner(fn, cell, 0)
		}
		cnt := 0
		for _, sc := range sites {
			isYieldCall := func(ins ssa.Instruction) bool {
				c, ok := ins.(*ssa.Call)
				return ok && sc.isYld(c.Call.Value)
			}
			continues := func(b *ssa.BasicBlock) string {
				for _, x := range b.Instrs {
					if isYieldCall(x) {
						return "yield can be called again (" + w.P.posStr(x.Pos()) + ") after it has returned false: a break that leaves only the inner loop, or a missing return"
					}
					if ret, ok := x.(*ssa.Return); ok && sc.body && len(ret.Results) == 1 {
						if c, isC := ret.Results[0].(*ssa.Const); isC && c.Value != nil && c.Value.String() == "true" {
							return "after yield has returned false the loop body goes on with the NEXT element of the enclosing iteration (" + w.P.posStr(ret.Pos()) + "): a break that leaves only the inner loop"
						}
					}
				}
				return ""
			}
			for _, b := range sc.fn.Blocks {
				for _, ins := range b.Instrs {
					if !isYieldCall(ins) {
						continue
					}
					scanned++
					call := ins.(*ssa.Call)
					cnt++
					bad := ""
					var iff *ssa.If
					used := false
					if refs := call.Referrers(); refs != nil {
						for _, r := range *refs {
							switch x := r.(type) {
							case *ssa.DebugRef:
							case *ssa.If:
								iff, used = x, true
							default:
								used = true
							}
						}
					}
					switch {
					case !used:
						bad = "the result of yield is dropped: the iterator goes on after the loop body asked it to stop"
					case iff != nil && iff.Cond == ssa.Value(call):
						// Succs[1] is taken when yield returned false
						seen := map[*ssa.BasicBlock]bool{}
						stack := []*ssa.BasicBlock{iff.Block().Succs[1]}
						for len(stack) > 0 && bad == "" {
							cur := stack[len(stack)-1]
							stack = stack[:len(stack)-1]
							if seen[cur] {
								continue
							}
							seen[cur] = true
							bad = continues(cur)
							stack = append(stack, cur.Succs...)
						}
					}
					if bad != "" {
						out = append(out, &Obligation{Name: fmt.Sprintf("%s/yield-protocol#%d", n, cnt), Func: n, Kind: "yield-protocol", Tags: []string{prop},
							Status: "failed", SrcPos: w.P.posStr(call.Pos()), Text: "an iterator stops calling yield once yield has returned false",
							Detail: map[string]string{"why": bad}})
					}
				}
			}
		}
	}
	st, why := "discharged", fmt.Sprintf("%d yield calls in the iterators of the repository scanned", scanned)
	if scanned == 0 {
		st, why = "failed", "vacuous: no iterator found in the repository"
	}
	out = append(out, &Obligation{Name: "yield-protocol/rule", Func: "yield-protocol", Kind: "yield-protocol", Tags: []string{prop}, Status: st,
		Text: "iterators stop calling yield once it has returned false", Detail: map[string]string{"why": why}, Solver: "ssa-scan"})
	return out
}

// sharedAppends: the append calls in fn (and in the contract-less repository helpers it calls, two levels deep) whose
// slice operand is read from a field of an object that fn did not allocate (reached through a parameter, a captured
// variable or a receiver), outside any locked region.
func (w *World) sharedAppends(fn *ssa.Function, depth int, seen map[*ssa.Function]bool) []ssa.Instruction {
	var out []ssa.Instruction
	if fn == nil || seen[fn] || len(fn.Blocks) == 0 {
		return nil
	}
	seen[fn] = true
	var foreign func(v ssa.Value, d int) bool
	foreign = func(v ssa.Value, d int) bool {
		if d > 6 {
			return false
		}
		switch x := v.(type) {
		case *ssa.Parameter, *ssa.FreeVar:
			return true
		case *ssa.UnOp:
			return foreign(x.X, d+1)
		case *ssa.FieldAddr:
			return foreign(x.X, d+1)
		case *ssa.Field:
			return foreign(x.X, d+1)
		}
		return false
	}
	for _, b := range fn.Blocks {
		locked := lockDominates(fn, b)
		for _, ins := range b.Instrs {
			c, ok := ins.(*ssa.Call)
			if !ok {
				continue
			}
			if f := c.Call.StaticCallee(); f != nil && f.Name() == "Lock" {
				locked = true
			}
			if locked {
				continue
			}
			if bi, isB := c.Call.Value.(*ssa.Builtin); isB && bi.Name() == "append" && len(c.Call.Args) > 0 {
				if ld, isLoad := c.Call.Args[0].(*ssa.UnOp); isLoad {
					if fa, isField := ld.X.(*ssa.FieldAddr); isField && foreign(fa.X, 0) {
						out = append(out, ins)
					}
				}
				continue
			}
			callee := c.Call.StaticCallee()
			if callee == nil || depth >= 2 || !w.P.InRepo(FuncPkgPath(callee)) || w.C.Funcs[CanonName(callee)] != nil {
				continue
			}
			out = append(out, w.sharedAppends(callee, depth+1, seen)...)
		}
	}
	return out
}

// ---- typed nil (built in, C16) -----------------------------------------------------------------------------------
//
// An element of a decoded list may be nil (`deps: [~, x]`). Wrapped into an interface of the repository it becomes a
// NON-nil interface value holding a nil pointer: the `!= nil` test of whoever receives it passes, and the method call
// behind it dereferences nil - across a dynamic dispatch that no per-function sweep follows. Rule: an element taken
// from a slice (range, index) whose type is a pointer to a struct of the repository is not converted to an interface
// type of the repository unless a comparison of that very value with nil dominates the conversion.
func (w *World) typedNilObligations(prop string) []*Obligation {
	if prop != "C16" {
		return nil
	}
	var out []*Obligation
	var names []string
	for n := range w.P.Funcs {
		names = append(names, n)
	}
	sort.Strings(names)
	scanned := 0
	inRepoNamed := func(t types.Type) bool {
		n, ok := t.(*types.Named)
		return ok && n.Obj().Pkg() != nil && w.P.InRepo(n.Obj().Pkg().Path())
	}
	for _, n := range names {
		fn := w.P.Funcs[n]
		if !w.P.InRepo(FuncPkgPath(fn)) || len(fn.Blocks) == 0 {
			continue
		}
		cnt := 0
		for _, b := range fn.Blocks {
			for _, ins := range b.Instrs {
				mi, ok := ins.(*ssa.MakeInterface)
				if !ok {
					continue
				}
				if _, isIface := mi.Type().Underlying().(*types.Interface); !isIface || !inRepoNamed(mi.Type()) {
					continue
				}
				pt, isPtr := mi.X.Type().(*types.Pointer)
				if !isPtr || !inRepoNamed(pt.Elem()) {
					continue
				}
				if _, isStruct := pt.Elem().Underlying().(*types.Struct); !isStruct {
					continue
				}
				scanned++
				// where does the pointer come from? only elements of slices / arrays / maps are suspects
				fromElem := false
				switch x := mi.X.(type) {
				case *ssa.UnOp:
					if _, ok := x.X.(*ssa.IndexAddr); ok && x.Op == token.MUL {
						fromElem = true
					}
				case *ssa.Extract:
					if _, ok := x.Tuple.(*ssa.Next); ok {
						fromElem = true
					}
				case *ssa.Index, *ssa.Lookup:
					fromElem = true
				}
				if !fromElem {
					continue
				}
				// a nil test of the same value that dominates the conversion
				guarded := false
				for _, ref := range *mi.X.Referrers() {
					bo, ok := ref.(*ssa.BinOp)
					if !ok || (bo.Op != token.EQL && bo.Op != token.NEQ) {
						continue
					}
					if c, isC := bo.Y.(*ssa.Const); !(isC && c.IsNil()) {
						if c2, isC2 := bo.X.(*ssa.Const); !(isC2 && c2.IsNil()) {
							continue
						}
					}
					if bo.Block() != b && bo.Block().Dominates(b) || bo.Block() == b {
						guarded = true
					}
				}
				if guarded {
					continue
				}
				cnt++
				out = append(out, &Obligation{Name: fmt.Sprintf("%s/typed-nil#%d", n, cnt), Func: n, Kind: "typed-nil", Tags: []string{"C16"}, Status: "failed",
					SrcPos: w.P.posStr(mi.Pos()), Text: "typed nil: an element of a list is not wrapped into an interface without a nil test",
					Detail: map[string]string{"why": shortName(n) + " converts an element of a list (" + mi.X.Type().String() + ", which may be nil for a null entry of the Taskfile) to " + mi.Type().String() + " without testing it: the receiver's != nil test then passes for a nil pointer"}, Solver: "ssa-scan"})
			}
		}
	}
	out = append(out, &Obligation{Name: "typed-nil/rule", Func: "typed-nil", Kind: "typed-nil", Tags: []string{"C16"}, Status: "discharged",
		Text: "typed nil", Detail: map[string]string{"why": fmt.Sprintf("%d conversions of repository struct pointers to repository interfaces scanned", scanned)}, Solver: "ssa-scan"})
	return out
}
