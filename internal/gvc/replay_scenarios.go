package gvc

import "strings"

// Hand-written scenario templates (DESIGN 2.8): for obligations whose counterexample lives in ghost state
// or in the behaviour of an injected dependency, the replay drives the real function through its public
// or in-package API over a small exhaustive table and compares with the clause's meaning.

type scenario struct {
	pkgRel string
	src    string
	what   string
}

// scenarioFor returns a scenario keyed by the short name of the function an obligation lives in.
func scenarioFor(short string) (scenario, bool) {
	s, ok := scenarios[short]
	return s, ok
}

// scenarioForObligation: scenarios selected by function and clause text (several clauses of one function need
// different drivers).
func scenarioForObligation(o *Obligation) (scenario, bool) {
	short := shortName(o.Func)
	for _, s := range clauseScenarios {
		if s.fn == short && strings.Contains(o.Text, s.clause) {
			return s.sc, true
		}
	}
	return scenarioFor(short)
}

type clauseScenario struct {
	fn, clause string
	sc         scenario
}

const gvcDriver = `
func gvcExec(t *testing.T, dir string, out *bytes.Buffer, opts ...task.ExecutorOption) *task.Executor {
	t.Helper()
	all := append([]task.ExecutorOption{task.WithDir(dir), task.WithStdout(out), task.WithStderr(out), task.WithStdin(strings.NewReader("")),
		task.WithTempDir(task.TempDir{Remote: filepath.Join(dir, ".task"), Fingerprint: filepath.Join(dir, ".task")})}, opts...)
	e := task.NewExecutor(all...)
	if err := e.Setup(); err != nil {
		t.Fatalf("setup: %v", err)
	}
	return e
}

func gvcWrite(t *testing.T, dir, name, content string) {
	t.Helper()
	if err := os.WriteFile(filepath.Join(dir, name), []byte(content), 0o644); err != nil {
		t.Fatal(err)
	}
}

func gvcTree(t *testing.T, dir string) string {
	var b strings.Builder
	filepath.Walk(dir, func(p string, info os.FileInfo, err error) error {
		if err == nil {
			rel, _ := filepath.Rel(dir, p)
			if info.IsDir() {
				b.WriteString(rel + "/\n")
			} else {
				data, _ := os.ReadFile(p)
				b.WriteString(rel + ":" + string(data) + "\n")
			}
		}
		return nil
	})
	return b.String()
}
`

const gvcHeader = `package task_test

import (
	"bytes"
	"context"
	"os"
	"path/filepath"
	"strings"
	"testing"
	"time"

	"github.com/go-task/task/v3"
)

var _ = context.Background
var _ = time.Second
` + gvcDriver

var clauseScenarios = []clauseScenario{
	{"fingerprint.(*ChecksumChecker).OnError", "checker.dry ==> unchanged", scenario{pkgRel: "", what: "a --dry run whose fingerprint check fails (generates path below a plain file) deletes the fingerprint recorded by the previous real run",
		src: gvcHeader + `
func TestGvcReplay(t *testing.T) {
	dir := t.TempDir()
	gvcWrite(t, dir, "Taskfile.yml", "version: '3'\nsilent: true\ntasks:\n  a:\n    method: checksum\n    sources: [src.txt]\n    generates: [out/x]\n    cmds: [\"mkdir -p out && echo ran > out/x\"]\n")
	gvcWrite(t, dir, "src.txt", "1")
	var out bytes.Buffer
	if err := gvcExec(t, dir, &out).Run(context.Background(), &task.Call{Task: "a"}); err != nil {
		t.Fatalf("real run: %v", err)
	}
	// the directory of the generated file is replaced by a plain file: looking up out/x now fails with
	// ENOTDIR, which the checker reports as an error of the fingerprint check itself
	os.RemoveAll(filepath.Join(dir, "out"))
	gvcWrite(t, dir, "out", "not a directory")
	before := gvcTree(t, filepath.Join(dir, ".task"))
	err := gvcExec(t, dir, &out, task.WithDry(true)).Run(context.Background(), &task.Call{Task: "a"})
	if err == nil {
		t.Skip("the fingerprint check did not fail on this system")
	}
	if after := gvcTree(t, filepath.Join(dir, ".task")); after != before {
		t.Fatalf("GVC-REPLAY-REPRODUCED: a dry run (which ended with %v) changed the fingerprint state\nbefore:\n%s\nafter:\n%s", err, before, after)
	}
}
`}},
	{"fingerprint.(*TimestampChecker).OnError", "checker.dry ==> unchanged", scenario{pkgRel: "", what: "a --dry run whose fingerprint check fails (generates path below a plain file) deletes the fingerprint recorded by the previous real run",
		src: gvcHeader + `
func TestGvcReplay(t *testing.T) {
	dir := t.TempDir()
	gvcWrite(t, dir, "Taskfile.yml", "version: '3'\nsilent: true\ntasks:\n  a:\n    method: checksum\n    sources: [src.txt]\n    generates: [out/x]\n    cmds: [\"mkdir -p out && echo ran > out/x\"]\n")
	gvcWrite(t, dir, "src.txt", "1")
	var out bytes.Buffer
	if err := gvcExec(t, dir, &out).Run(context.Background(), &task.Call{Task: "a"}); err != nil {
		t.Fatalf("real run: %v", err)
	}
	// the directory of the generated file is replaced by a plain file: looking up out/x now fails with
	// ENOTDIR, which the checker reports as an error of the fingerprint check itself
	os.RemoveAll(filepath.Join(dir, "out"))
	gvcWrite(t, dir, "out", "not a directory")
	before := gvcTree(t, filepath.Join(dir, ".task"))
	err := gvcExec(t, dir, &out, task.WithDry(true)).Run(context.Background(), &task.Call{Task: "a"})
	if err == nil {
		t.Skip("the fingerprint check did not fail on this system")
	}
	if after := gvcTree(t, filepath.Join(dir, ".task")); after != before {
		t.Fatalf("GVC-REPLAY-REPRODUCED: a dry run (which ended with %v) changed the fingerprint state\nbefore:\n%s\nafter:\n%s", err, before, after)
	}
}
`}},
	{"v3.(*Executor).startExecution", "execOK(h)", scenario{pkgRel: "", what: "a task whose run-once dependency FAILED earlier in the same invocation runs its commands: the later caller of the deduplicated execution gets nil",
		src: gvcHeader + `
func TestGvcReplay(t *testing.T) {
	dir := t.TempDir()
	gvcWrite(t, dir, "Taskfile.yml", "version: '3'\nsilent: true\ntasks:\n  main:\n    ignore_error: true\n    cmds:\n      - task: first\n      - task: second\n  first:\n    deps: [shared]\n    cmds: [\"echo first-ran >> out.txt\"]\n  second:\n    deps: [shared]\n    cmds: [\"echo second-ran >> out.txt\"]\n  shared:\n    run: once\n    cmds: [\"exit 3\"]\n")
	var out bytes.Buffer
	_ = gvcExec(t, dir, &out).Run(context.Background(), &task.Call{Task: "main"})
	data, _ := os.ReadFile(filepath.Join(dir, "out.txt"))
	if strings.Contains(string(data), "second-ran") {
		t.Fatalf("GVC-REPLAY-REPRODUCED: 'second' ran its command although its dependency 'shared' (run: once) had failed with exit status 3 (out.txt=%q, output=%q)", data, out.String())
	}
}
`}},
	{"v3.(*Executor).startExecution", "notAncestor(h)", scenario{pkgRel: "", what: "a dependency cycle through run: once tasks hangs instead of ending with the maximum-call-count error",
		src: gvcHeader + `
func TestGvcReplay(t *testing.T) {
	dir := t.TempDir()
	gvcWrite(t, dir, "Taskfile.yml", "version: '3'\nsilent: true\ntasks:\n  x:\n    deps: [a, b]\n  a:\n    run: once\n    deps: [b]\n    cmds: [\"echo a\"]\n  b:\n    run: once\n    deps: [a]\n    cmds: [\"echo b\"]\n")
	// "a": the cycle is entered from one side; "x": from both sides at once (each execution waits for the other)
	for _, entry := range []string{"a", "x", "x", "x"} {
		var out bytes.Buffer
		e := gvcExec(t, dir, &out)
		done := make(chan error, 1)
		go func() { done <- e.Run(context.Background(), &task.Call{Task: entry}) }()
		select {
		case err := <-done:
			if err == nil {
				t.Fatalf("GVC-REPLAY-REPRODUCED: a cyclic Taskfile ran to completion without an error (entry %s)", entry)
			}
		case <-time.After(5 * time.Second):
			t.Fatalf("GVC-REPLAY-REPRODUCED: a -> b -> a with run: once, entered through %s, did not return within 5 s (each execution waits for the other)", entry)
		}
	}
}
`}},
	{"templater.ReplaceWithExtra$1", "result.0 == rendered", scenario{pkgRel: "internal/templater", what: "a value that contains the text '<no value>' loses it when it is substituted into a command",
		src: `package templater

import (
	"testing"

	"github.com/go-task/task/v3/taskfile/ast"
)

func TestGvcReplay(t *testing.T) {
	vars := ast.NewVars()
	vars.Set("CLI_ARGS", ast.Var{Value: "'<no value>'"})
	cache := &Cache{Vars: vars}
	got := Replace("echo {{.CLI_ARGS}}", cache)
	if err := cache.Err(); err != nil {
		t.Fatalf("unexpected error: %v", err)
	}
	if got != "echo '<no value>'" {
		t.Fatalf("GVC-REPLAY-REPRODUCED: the argument '<no value>' given after -- reaches the command as %q instead of %q", got, "echo '<no value>'")
	}
}
`}},
	{"v3.(*Compiler).HandleDynamicVar", "envInKey", scenario{pkgRel: "", what: "two calls of one task with different variables: the second gets the value the first call's sh: variable computed from ITS variables",
		src: gvcHeader + `
func TestGvcReplay(t *testing.T) {
	dir := t.TempDir()
	gvcWrite(t, dir, "Taskfile.yml", "version: '3'\nsilent: true\ntasks:\n  show:\n    vars:\n      SEEN:\n        sh: echo \"seen-$X\"\n    cmds: [\"echo X={{.X}} SEEN={{.SEEN}}\"]\n  both:\n    cmds:\n      - task: show\n        vars: {X: one}\n      - task: show\n        vars: {X: two}\n")
	var out bytes.Buffer
	if err := gvcExec(t, dir, &out).Run(context.Background(), &task.Call{Task: "both"}); err != nil {
		t.Fatalf("run: %v", err)
	}
	if !strings.Contains(out.String(), "X=two SEEN=seen-two") {
		t.Fatalf("GVC-REPLAY-REPRODUCED: the second call (X=two) saw the dynamic variable of the first call: %q", out.String())
	}
}
`}},
	{"v3.(*Executor).RunTask$1", "exclusive(t)", scenario{pkgRel: "", what: "two tasks depend on a task with sources: the second call of it answers 'up to date' while the first is still running its command, and its dependant starts",
		src: gvcHeader + `
func TestGvcReplay(t *testing.T) {
	dir := t.TempDir()
	gvcWrite(t, dir, "Taskfile.yml", "version: '3'\nsilent: true\ntasks:\n  default:\n    deps: [x, y]\n  x:\n    deps: [d]\n    cmds: [\"echo x-start >> trace.txt\"]\n  y:\n    deps: [d]\n    cmds: [\"echo y-start >> trace.txt\"]\n  d:\n    sources: [src.txt]\n    cmds: [\"sleep 1\", \"echo d-done >> trace.txt\"]\n")
	gvcWrite(t, dir, "src.txt", "1")
	var out bytes.Buffer
	if err := gvcExec(t, dir, &out).Run(context.Background(), &task.Call{Task: "default"}); err != nil {
		t.Fatalf("run: %v", err)
	}
	data, _ := os.ReadFile(filepath.Join(dir, "trace.txt"))
	if !strings.HasPrefix(string(data), "d-done") {
		t.Fatalf("GVC-REPLAY-REPRODUCED: a dependant started before its dependency had finished: %q", string(data))
	}
}
`}},
	{"v3.(*Executor).RunTask$1", "precondsOK(call)", scenario{pkgRel: "", what: "--force runs the commands of a task whose precondition fails",
		src: gvcHeader + `
func TestGvcReplay(t *testing.T) {
	dir := t.TempDir()
	gvcWrite(t, dir, "Taskfile.yml", "version: '3'\nsilent: true\ntasks:\n  a:\n    preconditions:\n      - sh: \"false\"\n    cmds: [\"echo ran >> out.txt\"]\n")
	var out bytes.Buffer
	_ = gvcExec(t, dir, &out, task.WithForce(true)).Run(context.Background(), &task.Call{Task: "a"})
	if _, err := os.Stat(filepath.Join(dir, "out.txt")); err == nil {
		t.Fatalf("GVC-REPLAY-REPRODUCED: the command ran although the precondition 'false' failed (force=true)")
	}
}
`}},
	{"v3.(*Executor).RunTask$1", "fpTouched ==> cleaned(t)", scenario{pkgRel: "", what: "a run that stops between the fingerprint check and the first command (no terminal for the prompt) leaves the new checksum: the next run skips the task although its commands never ran",
		src: gvcHeader + `
func TestGvcReplay(t *testing.T) {
	dir := t.TempDir()
	gvcWrite(t, dir, "Taskfile.yml", "version: '3'\ntasks:\n  a:\n    prompt: sure?\n    sources: [src.txt]\n    cmds: [\"echo ran >> out.txt\"]\n")
	gvcWrite(t, dir, "src.txt", "1")
	var out bytes.Buffer
	err := gvcExec(t, dir, &out).Run(context.Background(), &task.Call{Task: "a"})
	if err == nil {
		t.Skip("first run was expected to be cancelled (no terminal)")
	}
	out.Reset()
	if err := gvcExec(t, dir, &out, task.WithAssumeYes(true)).Run(context.Background(), &task.Call{Task: "a"}); err != nil {
		t.Fatalf("second run: %v", err)
	}
	if _, err := os.Stat(filepath.Join(dir, "out.txt")); err != nil {
		t.Fatalf("GVC-REPLAY-REPRODUCED: after a cancelled attempt the next run skipped the task (output: %q)", out.String())
	}
}
`}},
	{"v3.(*Executor).RunTask$1", "!e.Dry", scenario{pkgRel: "", what: "--dry creates the task's dir",
		src: gvcHeader + `
func TestGvcReplay(t *testing.T) {
	dir := t.TempDir()
	gvcWrite(t, dir, "Taskfile.yml", "version: '3'\ntasks:\n  a:\n    dir: sub/dir\n    cmds: [\"echo hi\"]\n")
	before := gvcTree(t, dir)
	var out bytes.Buffer
	if err := gvcExec(t, dir, &out, task.WithDry(true)).Run(context.Background(), &task.Call{Task: "a"}); err != nil {
		t.Fatalf("dry run: %v", err)
	}
	if after := gvcTree(t, dir); after != before {
		t.Fatalf("GVC-REPLAY-REPRODUCED: a dry run changed the project tree:\nbefore:\n%s\nafter:\n%s", before, after)
	}
}
`}},
	{"v3.(*Executor).ToEditorOutput$1", "arg0", scenario{pkgRel: "", what: "--list --json (ToEditorOutput) writes the fingerprint of every task with sources, so a later run skips a task that never ran",
		src: gvcHeader + `
func TestGvcReplay(t *testing.T) {
	dir := t.TempDir()
	gvcWrite(t, dir, "Taskfile.yml", "version: '3'\ntasks:\n  a:\n    desc: d\n    sources: [src.txt]\n    cmds: [\"echo ran >> out.txt\"]\n")
	gvcWrite(t, dir, "src.txt", "1")
	before := gvcTree(t, dir)
	var out bytes.Buffer
	e := gvcExec(t, dir, &out)
	if _, err := e.ListTasks(task.ListOptions{ListAllTasks: true, FormatTaskListAsJSON: true}); err != nil {
		t.Fatalf("list: %v", err)
	}
	if after := gvcTree(t, dir); after != before {
		t.Fatalf("GVC-REPLAY-REPRODUCED: listing tasks as JSON changed the project tree:\nbefore:\n%s\nafter:\n%s", before, after)
	}
}
`}},
}

const gvcCLIHeader = `package task_test

import (
	"context"
	"os"
	"os/exec"
	"path/filepath"
	"strings"
	"testing"
	"time"
)

// gvcCLI builds the real task binary once and runs it in dir with a hard timeout (the binary swallows SIGTERM).
func gvcCLI(t *testing.T, dir string, args ...string) string {
	t.Helper()
	bin := filepath.Join(t.TempDir(), "task")
	b := exec.Command("go", "build", "-o", bin, "./cmd/task")
	b.Env = append(os.Environ(), "GOFLAGS=-mod=mod", "GOPROXY=off")
	if out, err := b.CombinedOutput(); err != nil {
		t.Fatalf("build: %v\n%s", err, out)
	}
	ctx, cancel := context.WithTimeout(context.Background(), 30*time.Second)
	defer cancel()
	c := exec.CommandContext(ctx, bin, args...)
	c.Dir = dir
	c.Stdin = strings.NewReader("")
	out, _ := c.CombinedOutput()
	gvcExitCode = c.ProcessState.ExitCode()
	return string(out)
}

var gvcExitCode int
`

func init() {
	clauseScenarios = append(clauseScenarios,
		clauseScenario{"v3.(*Executor).RunTask$1", "depsExit", scenario{pkgRel: "", what: "a failing command in a dependency makes the invocation exit 1 (unknown error) instead of 201, or of the command's own status with --exit-code",
			src: gvcCLIHeader + `
func TestGvcReplay(t *testing.T) {
	dir := t.TempDir()
	tf := "version: '3'\nsilent: true\ntasks:\n  a:\n    deps: [b]\n    cmds: ['echo a']\n  b:\n    cmds: ['exit 7']\n"
	if err := os.WriteFile(filepath.Join(dir, "Taskfile.yml"), []byte(tf), 0o644); err != nil {
		t.Fatal(err)
	}
	gvcCLI(t, dir, "a")
	plain := gvcExitCode
	gvcCLI(t, dir, "--exit-code", "a")
	withX := gvcExitCode
	if plain != 201 || withX != 7 {
		t.Fatalf("GVC-REPLAY-REPRODUCED: task a (whose dependency runs 'exit 7') exits %d, and %d with --exit-code; want 201 and 7", plain, withX)
	}
}
`}},
		clauseScenario{"task.run", "posArgs[0]", scenario{pkgRel: "", what: "task --init <path> ignores the path argument",
			src: gvcCLIHeader + `
func TestGvcReplay(t *testing.T) {
	dir := t.TempDir()
	out := gvcCLI(t, dir, "--init", "custom.yml")
	if _, err := os.Stat(filepath.Join(dir, "custom.yml")); err != nil {
		entries, _ := os.ReadDir(dir)
		var names []string
		for _, e := range entries {
			names = append(names, e.Name())
		}
		t.Fatalf("GVC-REPLAY-REPRODUCED: 'task --init custom.yml' did not create custom.yml (directory now holds %v; output %q)", names, out)
	}
}
`}},
		clauseScenario{"task.run", "arg2.Live", scenario{pkgRel: "", what: "an argument after -- that contains template syntax is expanded by the template engine before it reaches the command",
			src: gvcCLIHeader + `
func TestGvcReplay(t *testing.T) {
	dir := t.TempDir()
	tf := "version: '3'\nsilent: true\ntasks:\n  show:\n    cmds:\n      - printf '<%s>' {{.CLI_ARGS}}\n"
	if err := os.WriteFile(filepath.Join(dir, "Taskfile.yml"), []byte(tf), 0o644); err != nil {
		t.Fatal(err)
	}
	out := gvcCLI(t, dir, "show", "--", "{{.X}}", "a{{\"{{\"}}b")
	if out != "<{{.X}}><a{{\"{{\"}}b>" {
		t.Fatalf("GVC-REPLAY-REPRODUCED: task show -- '{{.X}}' 'a{{\"{{\"}}b' passed %q to the command", out)
	}
}
`}},
		clauseScenario{"v3.(*Compiler).getVariables$1$1", "arg0.Live", scenario{pkgRel: "", what: "an argument after -- that contains template syntax is expanded by the template engine before it reaches the command",
			src: gvcCLIHeader + `
func TestGvcReplay(t *testing.T) {
	dir := t.TempDir()
	tf := "version: '3'\nsilent: true\ntasks:\n  show:\n    cmds:\n      - printf '<%s>' {{.CLI_ARGS}}\n"
	if err := os.WriteFile(filepath.Join(dir, "Taskfile.yml"), []byte(tf), 0o644); err != nil {
		t.Fatal(err)
	}
	out := gvcCLI(t, dir, "show", "--", "{{.X}}", "a{{\"{{\"}}b")
	if out != "<{{.X}}><a{{\"{{\"}}b>" {
		t.Fatalf("GVC-REPLAY-REPRODUCED: task show -- '{{.X}}' 'a{{\"{{\"}}b' passed %q to the command", out)
	}
}
`}},
		clauseScenario{"task.run", "CLI_ARGS", scenario{pkgRel: "", what: "arguments after -- do not reach {{.CLI_ARGS}} as the same words",
			src: gvcCLIHeader + `
func TestGvcReplay(t *testing.T) {
	dir := t.TempDir()
	tf := "version: '3'\nsilent: true\ntasks:\n  show:\n    cmds:\n      - printf '<%s>' {{.CLI_ARGS}}\n"
	if err := os.WriteFile(filepath.Join(dir, "Taskfile.yml"), []byte(tf), 0o644); err != nil {
		t.Fatal(err)
	}
	out := gvcCLI(t, dir, "show", "--", "a", "b c")
	if out != "<a><b c>" {
		t.Fatalf("GVC-REPLAY-REPRODUCED: task show -- a 'b c' passed %q to the command, want \"<a><b c>\"", out)
	}
}
`}})
	clauseScenarios = append(clauseScenarios,
		clauseScenario{"v3.(*Executor).setupFuzzyModel", "fuzzyModel", scenario{pkgRel: "", what: "an unknown task name never gets a did-you-mean suggestion",
			src: gvcHeader + `
func TestGvcReplay(t *testing.T) {
	dir := t.TempDir()
	gvcWrite(t, dir, "Taskfile.yml", "version: '3'\ntasks:\n  build:\n    cmds: [\"echo hi\"]\n")
	var out bytes.Buffer
	err := gvcExec(t, dir, &out).Run(context.Background(), &task.Call{Task: "biuld"})
	if err == nil || !strings.Contains(err.Error(), "build") {
		t.Fatalf("GVC-REPLAY-REPRODUCED: running the unknown task \"biuld\" next to task \"build\" gave no suggestion: %v", err)
	}
}
`}},
		clauseScenario{"ast.(*Task).WildcardMatch", "", scenario{pkgRel: "taskfile/ast", what: "a task name with regular-expression metacharacters is not matched literally (or panics)",
			src: `package ast

import "testing"

func TestGvcReplay(t *testing.T) {
	defer func() {
		if r := recover(); r != nil {
			t.Fatalf("GVC-REPLAY-REPRODUCED: WildcardMatch panics for a task named \"a(\": %v", r)
		}
	}()
	if ok, _ := (&Task{Task: "x.y*"}).WildcardMatch("xzyQ"); ok {
		t.Fatalf("GVC-REPLAY-REPRODUCED: pattern \"x.y*\" matched \"xzyQ\": '.' was treated as a regular-expression wildcard")
	}
	(&Task{Task: "a("}).WildcardMatch("a(")
}
`}})
	clauseScenarios = append(clauseScenarios,
		clauseScenario{"output.(*groupWriter).close", "nw <= 1", scenario{pkgRel: "internal/output", what: "a group with a begin line reaches the shared stream in two Write calls, so another command's block can land between them",
			src: `package output

import (
	"strings"
	"sync"
	"testing"

	"github.com/go-task/task/v3/internal/templater"
	"github.com/go-task/task/v3/taskfile/ast"
)

// gvcShared records every Write; the first Write of command A is held until command B has flushed completely,
// which is one of the schedules the property quantifies over.
type gvcShared struct {
	mu     sync.Mutex
	out    strings.Builder
	writes int
	hold   chan struct{}
	held   bool
}

func (s *gvcShared) Write(p []byte) (int, error) {
	s.mu.Lock()
	s.out.Write(p)
	s.writes++
	first := !s.held
	s.held = true
	s.mu.Unlock()
	if first && s.hold != nil {
		<-s.hold
	}
	return len(p), nil
}

func TestGvcReplay(t *testing.T) {
	shared := &gvcShared{hold: make(chan struct{})}
	cache := &templater.Cache{Vars: ast.NewVars()}
	g := Group{Begin: "BEGIN", End: "END"}
	wa, _, closeA := g.WrapWriter(shared, shared, "", cache)
	wb, _, closeB := g.WrapWriter(shared, shared, "", cache)
	wa.Write([]byte("a-output\n"))
	wb.Write([]byte("b-output\n"))
	done := make(chan struct{})
	go func() { closeA(nil); close(done) }()
	for {
		shared.mu.Lock()
		h := shared.held
		shared.mu.Unlock()
		if h {
			break
		}
	}
	closeB(nil)
	close(shared.hold)
	<-done
	got := shared.out.String()
	okA := strings.Contains(got, "BEGIN\na-output\nEND\n")
	okB := strings.Contains(got, "BEGIN\nb-output\nEND\n")
	if !okA || !okB {
		t.Fatalf("GVC-REPLAY-REPRODUCED: two grouped commands finishing together were interleaved on the shared stream:\n%s", got)
	}
}
`}})
	clauseScenarios = append(clauseScenarios,
		clauseScenario{"v3.resolveMatrixRefs$1", "", scenario{pkgRel: "", what: "concurrent calls of a task whose for-matrix uses ref: write the resolved list into the shared task definition (data race reported by the Go race detector)",
			src: `// gvc:race
` + gvcHeader + `
func TestGvcReplay(t *testing.T) {
	dir := t.TempDir()
	gvcWrite(t, dir, "Taskfile.yml", "version: '3'\nsilent: true\ntasks:\n  default:\n    deps:\n      - {task: build, vars: {LIST: [a, b]}}\n      - {task: build, vars: {LIST: [c, d]}}\n      - {task: build, vars: {LIST: [e, f]}}\n      - {task: build, vars: {LIST: [g, h]}}\n  build:\n    cmds:\n      - for: {matrix: {OS: {ref: .LIST}}}\n        cmd: echo {{.ITEM.OS}}\n")
	for i := 0; i < 20; i++ {
		var out bytes.Buffer
		if err := gvcExec(t, dir, &out).Run(context.Background(), &task.Call{Task: "default"}); err != nil {
			t.Fatalf("run: %v (%s)", err, out.String())
		}
	}
}
`}})
	clauseScenarios = append(clauseScenarios,
		clauseScenario{"taskfile.(*Reader).readRemoteNodeContent", "cachedBytes", scenario{pkgRel: "taskfile", what: "a remote Taskfile that was downloaded and approved is not served from the cache when the server refuses the connection",
			src: `package taskfile

import (
	"context"
	"errors"
	"testing"
	"time"
)

// gvcRemote is a remote node whose server is up for the first read and refuses connections afterwards.
type gvcRemote struct {
	down bool
}

func (n *gvcRemote) Read() ([]byte, error)                               { return n.ReadContext(context.Background()) }
func (n *gvcRemote) Parent() Node                                        { return nil }
func (n *gvcRemote) Location() string                                    { return "https://example.invalid/Taskfile.yml" }
func (n *gvcRemote) Dir() string                                         { return "" }
func (n *gvcRemote) ResolveEntrypoint(entrypoint string) (string, error) { return entrypoint, nil }
func (n *gvcRemote) ResolveDir(dir string) (string, error)               { return dir, nil }
func (n *gvcRemote) CacheKey() string                                    { return "gvc.example" }
func (n *gvcRemote) ReadContext(ctx context.Context) ([]byte, error) {
	if n.down {
		return nil, errors.New("dial tcp: connection refused")
	}
	return []byte("version: '3'\ntasks: {a: {cmds: [echo hi]}}\n"), nil
}

func TestGvcReplay(t *testing.T) {
	node := &gvcRemote{}
	r := NewReader(WithTempDir(t.TempDir()), WithCacheExpiryDuration(time.Nanosecond), WithPromptFunc(func(string) error { return nil }))
	first, err := r.readRemoteNodeContent(context.Background(), node)
	if err != nil {
		t.Fatalf("first read (server up, approved): %v", err)
	}
	node.down = true
	time.Sleep(2 * time.Millisecond) // the cached copy is expired now, so a fresh download is attempted
	second, err := r.readRemoteNodeContent(context.Background(), node)
	if err != nil || string(second) != string(first) {
		t.Fatalf("GVC-REPLAY-REPRODUCED: with the server refusing connections the approved cached copy was not used: %v", err)
	}
}
`}})
	clauseScenarios = append(clauseScenarios,
		clauseScenario{"ast.(*TaskfileGraph).Merge", "", scenario{pkgRel: "", what: "sibling includes that define the same variable are merged in a different order on different loads",
			src: gvcHeader + `
func TestGvcReplay(t *testing.T) {
	dir := t.TempDir()
	gvcWrite(t, dir, "Taskfile.yml", "version: '3'\nincludes:\n  a: ./a.yml\n  b: ./b.yml\n  c: ./c.yml\n  d: ./d.yml\ntasks:\n  show:\n    cmds: [\"echo {{.X}}\"]\n")
	for _, n := range []string{"a", "b", "c", "d"} {
		gvcWrite(t, dir, n+".yml", "version: '3'\nvars:\n  X: from-"+n+"\ntasks:\n  t"+n+":\n    cmds: [\"echo "+n+"\"]\n")
	}
	seen := map[string]bool{}
	for i := 0; i < 40; i++ {
		var out bytes.Buffer
		e := gvcExec(t, dir, &out, task.WithSilent(true))
		if err := e.Run(context.Background(), &task.Call{Task: "show"}); err != nil {
			t.Fatalf("run: %v", err)
		}
		seen[strings.TrimSpace(out.String())] = true
	}
	if len(seen) > 1 {
		t.Fatalf("GVC-REPLAY-REPRODUCED: 40 loads of the same Taskfile tree gave %d different values for X: %v", len(seen), seen)
	}
}
`}})
	clauseScenarios = append(clauseScenarios,
		clauseScenario{"ast.(*TaskfileGraph).Merge$2", "", scenario{pkgRel: "", what: "one file included twice by the same parent is merged in the order in which the reader's goroutines finished: task order and variable values differ between loads",
			src: gvcHeader + `
func TestGvcReplay(t *testing.T) {
	dir := t.TempDir()
	gvcWrite(t, dir, "Taskfile.yml", "version: '3'\nincludes:\n  a:\n    taskfile: ./inc.yml\n    vars: {WHO: from-a}\n  b:\n    taskfile: ./inc.yml\n    vars: {WHO: from-b}\n  c:\n    taskfile: ./inc.yml\n    vars: {WHO: from-c}\ntasks:\n  default:\n    cmds: [\"true\"]\n")
	gvcWrite(t, dir, "inc.yml", "version: '3'\ntasks:\n  show:\n    cmds: [\"echo {{.WHO}}\"]\n")
	seen := map[string]bool{}
	for i := 0; i < 40; i++ {
		var out bytes.Buffer
		e := gvcExec(t, dir, &out, task.WithSilent(true))
		var names []string
		for name := range e.Taskfile.Tasks.Keys(nil) {
			names = append(names, name)
		}
		seen[strings.Join(names, ",")] = true
	}
	if len(seen) > 1 {
		t.Fatalf("GVC-REPLAY-REPRODUCED: 40 loads of the same Taskfile tree gave %d different task orders: %v", len(seen), seen)
	}
}
`}})
	clauseScenarios = append(clauseScenarios, clauseScenario{"ast.(*Taskfile).Merge", "t2.Vars", scenario{pkgRel: "", what: "a global variable of the root Taskfile overrides the vars of an include statement for the tasks of the included file",
		src: gvcHeader + `
func TestGvcReplay(t *testing.T) {
	dir := t.TempDir()
	gvcWrite(t, dir, "Taskfile.yml", "version: '3'\nsilent: true\nvars:\n  X: root-global\nincludes:\n  inc:\n    taskfile: ./inc.yml\n    vars:\n      X: from-include-statement\n")
	gvcWrite(t, dir, "inc.yml", "version: '3'\ntasks:\n  show:\n    cmds: [\"echo {{.X}}\"]\n")
	var out bytes.Buffer
	if err := gvcExec(t, dir, &out, task.WithSilent(true)).Run(context.Background(), &task.Call{Task: "inc:show"}); err != nil {
		t.Fatalf("run: %v", err)
	}
	if got := strings.TrimSpace(out.String()); got != "from-include-statement" {
		t.Fatalf("GVC-REPLAY-REPRODUCED: the included task sees X=%q; the include statement passes X=from-include-statement, which ranks above the global X=root-global", got)
	}
}
`}})
	clauseScenarios = append(clauseScenarios, clauseScenario{"fingerprint.(*TimestampChecker).IsUpToDate", "genOK", scenario{pkgRel: "", what: "method timestamp: deleting the generated file does not make the task run again",
		src: gvcHeader + `
func TestGvcReplay(t *testing.T) {
	dir := t.TempDir()
	gvcWrite(t, dir, "Taskfile.yml", "version: '3'\nsilent: true\ntasks:\n  gen:\n    method: timestamp\n    sources: [src.txt]\n    generates: [out.txt]\n    cmds: [\"cp src.txt out.txt\"]\n")
	gvcWrite(t, dir, "src.txt", "1")
	var out bytes.Buffer
	for i := 0; i < 2; i++ {
		if err := gvcExec(t, dir, &out).Run(context.Background(), &task.Call{Task: "gen"}); err != nil {
			t.Fatalf("run %d: %v", i, err)
		}
	}
	os.Remove(filepath.Join(dir, "out.txt"))
	if err := gvcExec(t, dir, &out).Run(context.Background(), &task.Call{Task: "gen"}); err != nil {
		t.Fatalf("run after delete: %v", err)
	}
	if _, err := os.Stat(filepath.Join(dir, "out.txt")); err != nil {
		t.Fatalf("GVC-REPLAY-REPRODUCED: the generated file was deleted, the next run reported the task up to date and did not rebuild it (output %q)", out.String())
	}
}
`}})
	clauseScenarios = append(clauseScenarios, clauseScenario{"fingerprint.(*TimestampChecker).OnError", "stampPath", scenario{pkgRel: "", what: "method timestamp: a failed run leaves the stamp file, the next run reports the task up to date",
		src: gvcHeader + `
func TestGvcReplay(t *testing.T) {
	dir := t.TempDir()
	gvcWrite(t, dir, "Taskfile.yml", "version: '3'\ntasks:\n  a:\n    method: timestamp\n    sources: [src.txt]\n    cmds: [\"test -f ok.txt\", \"echo ran >> out.txt\"]\n")
	gvcWrite(t, dir, "src.txt", "1")
	var out bytes.Buffer
	if err := gvcExec(t, dir, &out).Run(context.Background(), &task.Call{Task: "a"}); err == nil {
		t.Skip("first run was expected to fail")
	}
	gvcWrite(t, dir, "ok.txt", "")
	out.Reset()
	if err := gvcExec(t, dir, &out).Run(context.Background(), &task.Call{Task: "a"}); err != nil {
		t.Fatalf("second run: %v", err)
	}
	if _, err := os.Stat(filepath.Join(dir, "out.txt")); err != nil {
		t.Fatalf("GVC-REPLAY-REPRODUCED: after a failed attempt the next run skipped the task (output: %q)", out.String())
	}
}
`}})
}

var scenarios = map[string]scenario{
	"fingerprint.IsTaskUpToDate": {
		pkgRel: "internal/fingerprint",
		what:   "IsTaskUpToDate disagrees with the status/sources truth table for stub checkers",
		src: `package fingerprint

import (
	"context"
	"testing"

	"github.com/go-task/task/v3/taskfile/ast"
)

type gvcStatus struct{ ok bool }

func (s gvcStatus) IsUpToDate(ctx context.Context, t *ast.Task) (bool, error) { return s.ok, nil }

type gvcSources struct{ ok bool }

func (s gvcSources) IsUpToDate(t *ast.Task) (bool, error) { return s.ok, nil }
func (s gvcSources) Value(t *ast.Task) (any, error)      { return "", nil }
func (s gvcSources) OnError(t *ast.Task) error           { return nil }
func (s gvcSources) Kind() string                        { return "gvc" }

func TestGvcReplay(t *testing.T) {
	for _, stSet := range []bool{false, true} {
		for _, srcSet := range []bool{false, true} {
			for _, st := range []bool{false, true} {
				for _, src := range []bool{false, true} {
					task := &ast.Task{}
					if stSet {
						task.Status = []string{"true"}
					}
					if srcSet {
						task.Sources = []*ast.Glob{{Glob: "x"}}
					}
					got, err := IsTaskUpToDate(context.Background(), task, WithStatusChecker(gvcStatus{st}), WithSourcesChecker(gvcSources{src}))
					want := (stSet || srcSet) && (!stSet || st) && (!srcSet || src)
					if err != nil || got != want {
						t.Fatalf("GVC-REPLAY-REPRODUCED: statusSet=%v sourcesSet=%v status=%v sources=%v: got %v (err %v), specified %v", stSet, srcSet, st, src, got, err, want)
					}
				}
			}
		}
	}
}
`},
}
