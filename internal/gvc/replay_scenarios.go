package gvc

// Hand-written scenario templates (DESIGN 2.8): for obligations whose counterexample lives in ghost state
// or in the behaviour of an injected dependency, the replay drives the real function through its public
// or in-package API over a small exhaustive table and compares with the clause's meaning.

type scenario struct {
	pkgRel string
	src    string
	what   string
}

// scenarioFor returns a scenario keyed by the short name of the function an obligation lives in.
func scenarioFor(short string) (scenario, bool) {
	s, ok := scenarios[short]
	return s, ok
}

var scenarios = map[string]scenario{
	"fingerprint.IsTaskUpToDate": {
		pkgRel: "internal/fingerprint",
		what:   "IsTaskUpToDate disagrees with the status/sources truth table for stub checkers",
		src: `package fingerprint

import (
	"context"
	"testing"

	"github.com/go-task/task/v3/taskfile/ast"
)

type gvcStatus struct{ ok bool }

func (s gvcStatus) IsUpToDate(ctx context.Context, t *ast.Task) (bool, error) { return s.ok, nil }

type gvcSources struct{ ok bool }

func (s gvcSources) IsUpToDate(t *ast.Task) (bool, error) { return s.ok, nil }
func (s gvcSources) Value(t *ast.Task) (any, error)      { return "", nil }
func (s gvcSources) OnError(t *ast.Task) error           { return nil }
func (s gvcSources) Kind() string                        { return "gvc" }

func TestGvcReplay(t *testing.T) {
	for _, stSet := range []bool{false, true} {
		for _, srcSet := range []bool{false, true} {
			for _, st := range []bool{false, true} {
				for _, src := range []bool{false, true} {
					task := &ast.Task{}
					if stSet {
						task.Status = []string{"true"}
					}
					if srcSet {
						task.Sources = []*ast.Glob{{Glob: "x"}}
					}
					got, err := IsTaskUpToDate(context.Background(), task, WithStatusChecker(gvcStatus{st}), WithSourcesChecker(gvcSources{src}))
					want := (stSet || srcSet) && (!stSet || st) && (!srcSet || src)
					if err != nil || got != want {
						t.Fatalf("GVC-REPLAY-REPRODUCED: statusSet=%v sourcesSet=%v status=%v sources=%v: got %v (err %v), specified %v", stSet, srcSet, st, src, got, err, want)
					}
				}
			}
		}
	}
}
`},
}
