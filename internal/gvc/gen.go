package gvc

import (
	"fmt"
	"go/token"
	"go/types"
	"strings"

	"golang.org/x/tools/go/ssa"
)

const Preamble = `(declare-fun slen (Int) Int)
(declare-fun scat (Int Int) Int)
(declare-fun ssub (Int Int Int) Int)
(declare-fun sat (Int Int) Int)
(declare-fun slt (Int Int) Bool)
(declare-fun sl_arr (Int) Int)
(declare-fun sl_off (Int) Int)
(declare-fun sl_len (Int) Int)
(declare-fun sl_cap (Int) Int)
(declare-fun idx (Int Int) Int)
(declare-fun itag (Int) Int)
(declare-fun ipl (Int) Int)
(declare-fun ibox (Int Int) Int)
(declare-fun iplb (Int) Bool)
(declare-fun iboxb (Int Bool) Int)
(declare-fun implements (Int Int) Bool)
(declare-fun maplen ((Array Int Bool)) Int)
(declare-fun clofn (Int) Int)
(declare-fun uf_bits (Int Int Int) Int)
(declare-fun uf_conv (Int Int) Int)
(define-fun godiv ((a Int) (b Int)) Int (ite (>= a 0) (div a b) (- (div (- a) b))))
(define-fun gomod ((a Int) (b Int)) Int (- a (* b (godiv a b))))
(assert (= (slen 0) 0))
(assert (forall ((r (Array Int Bool))) (! (>= (maplen r) 0) :pattern ((maplen r)))))
(assert (forall ((x Int)) (! (>= (slen x) 0) :pattern ((slen x)))))
(assert (forall ((x Int)) (! (=> (= (slen x) 0) (= x 0)) :pattern ((slen x)))))
(assert (forall ((a Int) (b Int)) (! (= (idx a b) (+ a b)) :pattern ((idx a b)))))
(assert (= (sl_len 0) 0))
(assert (= (sl_cap 0) 0))
(assert (= (sl_off 0) 0))
(assert (= (itag 0) 0))
`

// Generate builds the verification conditions of the function.
func (vc *VC) Generate() (err error) {
	defer func() {
		if r := recover(); r != nil {
			if ge, ok := r.(genErr); ok {
				err = fmt.Errorf("%s: %s", vc.Name, string(ge))
				return
			}
			panic(r)
		}
	}()
	fn := vc.fn
	if len(fn.Blocks) == 0 {
		return fmt.Errorf("%s: no body", vc.Name)
	}
	vc.findLoops()
	vc.entry = vc.newState()
	vc.st = vc.entry
	vc.cur = fn.Blocks[0]
	vc.reach[fn.Blocks[0]] = "true"
	vc.entryAlloc = vc.st.get(vc.allocKey())

	// parameters and free variables are havoc sources
	for _, p := range fn.Params {
		n := vc.declare(vc.valName(p), sortOf(p.Type()))
		vc.vals[p] = n
		nonnil := !(vc.fc != nil && vc.fc.Nilable[p.Name()])
		vc.typeFacts(n, p.Type(), nonnil)
		vc.params[p.Name()] = sval{term: n, typ: p.Type()}
	}
	for _, fv := range fn.FreeVars {
		n := vc.declare(vc.valName(fv), "Int")
		vc.vals[fv] = n
		vc.typeFacts(n, fv.Type(), true)
	}
	if vc.fc != nil {
		env := vc.envAt(vc.st, vc.st)
		for _, c := range vc.fc.Requires {
			v := vc.trBool(c.Expr, env, c)
			vc.assert(v)
		}
		if vc.fc.TrustedFrame {
			vc.usedContracts["frame of "+shortName(vc.Name)+" (modifies "+strings.Join(vc.fc.Modifies, ", ")+") is assumed, not checked; its other clauses are verified"] = true
		}
		for _, c := range vc.fc.Entry {
			v := vc.trBool(c.Expr, env, c)
			vc.assert(v)
			vc.usedContracts["entry assumption of "+shortName(vc.Name)+" (not imposed on callers): "+c.Text] = true
		}
	}
	vc.axioms()
	entersLocked := false
	if vc.fc != nil {
		for _, c := range vc.fc.Requires {
			if strings.Contains(c.Text, "held(") {
				entersLocked = true // "requires held(m)": a helper that is called under its caller's lock
			}
		}
	}
	if hk, _, ok := vc.ghostKey("held"); ok && !entersLocked {
		// no function is entered while holding a mutex that it locks itself (that would be a self-deadlock):
		// its own lock operations start from an empty lock set
		vc.assert(fmt.Sprintf("(= %s ((as const (Array Int Bool)) false))", vc.st.get(hk)))
	}
	if vc.fc != nil {
		for _, in := range vc.fc.Inits {
			gd := vc.C.Ghosts[in.Ghost.Name]
			if gd == nil || !gd.Scratch {
				vc.fail("%s:%d: init is only allowed on scratch ghost variables", in.File, in.Line)
			}
			vc.ghostSet(in, vc.envAt(vc.st, vc.entry), "")
		}
	}

	order := vc.topoOrder()
	for _, b := range order {
		vc.block(b)
	}
	// cover: some return is reachable under the assumptions (vacuity guard)
	if len(vc.retBlocks) > 0 {
		vc.cur = nil
		o := vc.oblige("cover", "return-reachable", or(vc.retBlocks...), vc.tagsOfFunc(), fn.Pos(), nil)
		o.Cover = true
		o.Reach = "true"
	}
	// operations that must not occur at all
	if vc.fc != nil {
		for _, ns := range vc.fc.NoSites {
			ns := ns
			// helpers verified inline are part of the function: a forbidden operation moved into one is found
			vc.walkInstrs(fn, "", 0, nil, func(x ssa.Instruction, path string) {
				if st, isStore := x.(*ssa.Store); isStore {
					// "nosite store:T.f": the function never writes that field
					if n := storeSiteName(st); n != "" && (n == ns.Site || (strings.HasSuffix(ns.Site, ".*") && strings.HasPrefix(n, strings.TrimSuffix(ns.Site, "*")))) {
						b := x.Block()
						vc.cur = nil
						o := vc.oblige("nosite", ns.Site, "false", mergeTags(ns.Tags, vc.tagsOfFunc()), x.Pos(), ns)
						o.Reach = "true"
						if b.Parent() == fn {
							if r := vc.reach[b]; r != "" {
								o.Reach = r
							}
						}
					}
					return
				}
				// "nosite select" / "nosite send" / "nosite recv": the function never waits on a channel
				chanOp := ""
				switch y := x.(type) {
				case *ssa.Select:
					chanOp = "select"
				case *ssa.Send:
					chanOp = "send"
				case *ssa.UnOp:
					if y.Op == token.ARROW {
						chanOp = "recv"
					}
				}
				if chanOp != "" {
					if chanOp == ns.Site {
						b := x.Block()
						vc.cur = nil
						o := vc.oblige("nosite", ns.Site, "false", mergeTags(ns.Tags, vc.tagsOfFunc()), x.Pos(), ns)
						o.Reach = "true"
						if b.Parent() == fn {
							if r := vc.reach[b]; r != "" {
								o.Reach = r
							}
						}
					}
					return
				}
				ci, ok := x.(ssa.CallInstruction)
				if !ok {
					return
				}
				name := ""
				if bi, isB := ci.Common().Value.(*ssa.Builtin); isB {
					name = bi.Name()
				} else {
					name, _ = vc.calleeName(ci.Common())
				}
				if name == ns.Site || matchCallee(name, ns.Site) || matchCalleeGlob(name, ns.Site) {
					b := x.Block()
					vc.cur = nil
					o := vc.oblige("nosite", ns.Site, "false", mergeTags(ns.Tags, vc.tagsOfFunc()), x.Pos(), ns)
					o.Reach = "true"
					if b.Parent() == fn {
						if r := vc.reach[b]; r != "" {
							o.Reach = r
						}
					}
				}
			})
		}
		if len(vc.fc.NoSites) > 0 {
			vc.cur = nil
			o := vc.oblige("nosite", "scan", "true", vc.tagsOfFunc(), fn.Pos(), vc.fc.NoSites[0])
			o.Reach = "true"
		}
	}
	// contract binding: every loop / site clause must have bound to something
	if vc.fc != nil {
		for _, c := range vc.fc.Invs {
			found := false
			for _, sl := range vc.staticLoops {
				if sl.ordinal == c.Loop {
					found = true
				}
			}
			if !found {
				vc.bindingFailure(c, fmt.Sprintf("loop %d does not exist (function has %d loops)", c.Loop, len(vc.staticLoops)))
			}
		}
		if len(vc.retBlocks) > 0 {
			for _, c := range vc.fc.Ensures {
				if !c.Derived && vc.ensuresSeen[c] == 0 {
					vc.bindingFailure(c, "the post-condition could not be evaluated at any return (it names a variable that is nowhere in scope)")
				}
			}
		}
		for _, c := range vc.fc.Sites {
			if vc.siteUsed[c] == 0 {
				vc.bindingFailure(c, fmt.Sprintf("no call site matches %s#%d", c.Site, c.SiteN))
			}
		}
	}
	return nil
}

type genErr string

func (vc *VC) fail(f string, a ...any) { panic(genErr(fmt.Sprintf(f, a...))) }

func (vc *VC) bindingFailure(c *Clause, why string) {
	vc.cur = nil
	tags := c.Tags
	if len(tags) == 0 && c.Ghost != nil && vc.fc != nil {
		// an observation (ghost assignment) that cannot be bound matters to the clauses that read the observed
		// variable, i.e. to THEIR properties - not to every property the function is examined for
		seen := map[string]bool{}
		var all []*Clause
		all = append(all, vc.fc.Requires...)
		all = append(all, vc.fc.Ensures...)
		all = append(all, vc.fc.Sites...)
		all = append(all, vc.fc.Invs...)
		for _, other := range all {
			if other == c || len(other.Tags) == 0 || other.Expr == nil {
				continue
			}
			names := map[string]bool{}
			vc.ghostNamesIn(other.Expr, names)
			if names[c.Ghost.Name] {
				for _, t := range other.Tags {
					if !seen[t] {
						seen[t] = true
						tags = append(tags, t)
					}
				}
			}
		}
	}
	o := vc.oblige("contract-binding", "", "false", mergeTags(tags, vc.tagsOfFunc()), token.NoPos, c)
	o.Reach = "true"
	o.Detail["why"] = why
}

func (vc *VC) axioms() {
	if len(vc.C.Axioms) == 0 {
		return
	}
	env := vc.envAt(vc.st, vc.st)
	for _, c := range vc.C.Axioms {
		if !vc.axiomRelevant(c) {
			continue
		}
		v := vc.trBool(c.Expr, env, c)
		vc.assert(v)
	}
}

// axiomRelevant: only include axioms whose ghost functions are used by this function's contract (keeps VCs small).
func (vc *VC) axiomRelevant(c *Clause) bool { return true }

// ---- control-flow structure -----------------------------------------------------

// staticLoop: one loop of the function under verification or of a helper that is verified inline at the call
// site identified by path; ordinal is the number "loop N invariant" clauses use.
type staticLoop struct {
	header  *ssa.BasicBlock
	path    string
	ordinal int
}

// loopShape: the natural loops of one function (instance independent).
type loopShape struct {
	header *ssa.BasicBlock
	backs  []*ssa.BasicBlock
	blocks map[*ssa.BasicBlock]bool
}

func (vc *VC) loopShapes(fn *ssa.Function) []*loopShape {
	if sh, ok := vc.shapes[fn]; ok {
		return sh
	}
	by := map[*ssa.BasicBlock]*loopShape{}
	for _, b := range fn.Blocks {
		for _, s := range b.Succs {
			if s.Dominates(b) {
				vc.backEdge[[2]*ssa.BasicBlock{b, s}] = true
				ls := by[s]
				if ls == nil {
					ls = &loopShape{header: s, blocks: map[*ssa.BasicBlock]bool{s: true}}
					by[s] = ls
				}
				ls.backs = append(ls.backs, b)
			}
		}
	}
	var out []*loopShape
	for _, b := range fn.Blocks {
		ls, ok := by[b]
		if !ok {
			continue
		}
		out = append(out, ls)
		// natural loop body: nodes that reach a back-edge source without passing the header
		var stack []*ssa.BasicBlock
		for _, u := range ls.backs {
			if !ls.blocks[u] {
				ls.blocks[u] = true
				stack = append(stack, u)
			}
		}
		for len(stack) > 0 {
			x := stack[len(stack)-1]
			stack = stack[:len(stack)-1]
			for _, p := range x.Preds {
				if !ls.blocks[p] {
					ls.blocks[p] = true
					stack = append(stack, p)
				}
			}
		}
	}
	if vc.shapes == nil {
		vc.shapes = map[*ssa.Function][]*loopShape{}
	}
	vc.shapes[fn] = out
	return out
}

// installLoops creates the loop records of one instance of fn (the function itself: path "", or a helper being
// verified inline at path) and returns them; their ordinals come from the static enumeration.
func (vc *VC) installLoops(fn *ssa.Function, path string) []*loopInfo {
	var out []*loopInfo
	for _, ls := range vc.loopShapes(fn) {
		li := &loopInfo{header: ls.header, blocks: ls.blocks, backs: ls.backs, phiVals: map[*ssa.Phi]string{}}
		for _, sl := range vc.staticLoops {
			if sl.header == ls.header && sl.path == path {
				li.ordinal = sl.ordinal
			}
		}
		li.rangeIx = rangeIndexPhi(ls.header)
		vc.loops[ls.header] = li
		vc.loopList = append(vc.loopList, li)
		out = append(out, li)
	}
	return out
}

func rangeIndexPhi(b *ssa.BasicBlock) *ssa.Phi {
	var out *ssa.Phi
	for _, ins := range b.Instrs {
		if phi, ok := ins.(*ssa.Phi); ok && phi.Comment == "rangeindex" {
			out = phi
		}
	}
	return out
}

func (vc *VC) findLoops() {
	// static enumeration, through the helpers that are verified inline (same walk as the call-site ordinals)
	var walk func(fn *ssa.Function, path string, depth int, stack []*ssa.Function)
	walk = func(fn *ssa.Function, path string, depth int, stack []*ssa.Function) {
		headers := map[*ssa.BasicBlock]bool{}
		for _, ls := range vc.loopShapes(fn) {
			headers[ls.header] = true
		}
		for _, b := range fn.Blocks {
			if headers[b] {
				vc.staticLoops = append(vc.staticLoops, &staticLoop{header: b, path: path, ordinal: len(vc.staticLoops) + 1})
			}
			for _, x := range b.Instrs {
				if call, ok := x.(*ssa.Call); ok && depth < inlMaxDepth && !call.Call.IsInvoke() {
					if callee := call.Call.StaticCallee(); callee != nil && vc.inlinable(callee) && !inStack(stack, callee) {
						walk(callee, fmt.Sprintf("%s/%p", path, call), depth+1, append(stack, callee))
					}
				}
			}
		}
	}
	walk(vc.fn, "", 0, nil)
	vc.rebindLoops()
	vc.installLoops(vc.fn, "")
}

func (vc *VC) topoOrder() []*ssa.BasicBlock {
	fn := vc.fn
	seen := map[*ssa.BasicBlock]bool{}
	var post []*ssa.BasicBlock
	var dfs func(b *ssa.BasicBlock)
	dfs = func(b *ssa.BasicBlock) {
		seen[b] = true
		for _, s := range b.Succs {
			if vc.backEdge[[2]*ssa.BasicBlock{b, s}] || seen[s] {
				continue
			}
			dfs(s)
		}
		post = append(post, b)
	}
	dfs(fn.Blocks[0])
	for i, j := 0, len(post)-1; i < j; i, j = i+1, j-1 {
		post[i], post[j] = post[j], post[i]
	}
	return post
}

func (vc *VC) edgeCond(from, to *ssa.BasicBlock) string {
	r := vc.reach[from]
	if iff, ok := from.Instrs[len(from.Instrs)-1].(*ssa.If); ok {
		c := vc.val(iff.Cond)
		if from.Succs[0] == to && from.Succs[1] == to {
			return r
		}
		if from.Succs[0] == to {
			return and(r, c)
		}
		return and(r, not(c))
	}
	return r
}

// innermost loop containing b (by smallest body), or nil
func (vc *VC) loopOf(b *ssa.BasicBlock) *loopInfo {
	var best *loopInfo
	for _, li := range vc.loopList {
		if li.blocks[b] && (best == nil || len(li.blocks) < len(best.blocks)) {
			best = li
		}
	}
	return best
}

func (vc *VC) block(b *ssa.BasicBlock) {
	vc.cur = b
	if b.Index != 0 {
		var edges []stEdge
		var conds []string
		for _, p := range b.Preds {
			if vc.backEdge[[2]*ssa.BasicBlock{p, b}] {
				continue
			}
			if _, ok := vc.endState[p]; !ok {
				continue // unreachable predecessor
			}
			c := vc.edgeCond(p, b)
			edges = append(edges, stEdge{c, vc.endState[p]})
			conds = append(conds, c)
		}
		if len(edges) == 0 {
			return
		}
		r := vc.declare(fmt.Sprintf("R_%s%d", vc.inlPrefix, b.Index), "Bool")
		vc.assert(fmt.Sprintf("(= %s %s)", r, or(conds...)))
		vc.reach[b] = r
		vc.st = vc.mergeStates(edges)
	}
	if li, ok := vc.loops[b]; ok {
		vc.loopHeader(li)
	} else {
		for _, ins := range b.Instrs {
			if phi, ok := ins.(*ssa.Phi); ok {
				vc.phi(phi)
			}
		}
	}
	for _, ins := range b.Instrs {
		if _, ok := ins.(*ssa.Phi); ok {
			continue
		}
		vc.instr(ins)
	}
	vc.endState[b] = vc.st
	// back edges leaving this block: invariant must be re-established
	for _, s := range b.Succs {
		if vc.backEdge[[2]*ssa.BasicBlock{b, s}] {
			vc.backEdgeCheck(b, vc.loops[s])
		}
	}
}

func (vc *VC) phi(phi *ssa.Phi) {
	b := phi.Block()
	n := vc.declare(vc.valName(phi), sortOf(phi.Type()))
	vc.vals[phi] = n
	vc.registerPhiName(phi)
	for i, p := range b.Preds {
		if _, ok := vc.endState[p]; !ok {
			continue
		}
		vc.assert(fmt.Sprintf("(=> %s (= %s %s))", vc.edgeCond(p, b), n, vc.val(phi.Edges[i])))
	}
}

// registerPhiName: a phi created for source variable x is the value of x from its block on.
func (vc *VC) registerPhiName(phi *ssa.Phi) {
	c := phi.Comment
	if c == "" || strings.ContainsAny(c, "|&$ ") || c == "rangeindex" {
		return
	}
	vc.localRefs[c] = append(vc.localRefs[c], localRef{phi, phi.Block(), false})
}

// ---- loops -------------------------------------------------------------------------

type modSet struct {
	all   bool // unknown call: everything
	heap  bool
	ghost bool
	keys  map[string]bool
	pats  []string
	iscopy bool
	keep  []string
	keepSet bool
	heapNoKeep bool
}

func intersect(a, b []string) []string {
	var out []string
	for _, x := range a {
		for _, y := range b {
			if x == y {
				out = append(out, x)
			}
		}
	}
	return out
}

// callMods adds what a call inside a loop may modify (mirrors callEffect).
func (vc *VC) callMods(ins ssa.CallInstruction, ms *modSet) {
	c := ins.Common()
	ms.keys[vc.allocKey()] = true
	if b, ok := c.Value.(*ssa.Builtin); ok {
		switch b.Name() {
		case "append":
			if st, ok := ins.Value().Type().Underlying().(*types.Slice); ok {
				if _, isStruct := structOf(st.Elem()); !isStruct {
					ms.keys[vc.elemKey(st.Elem())] = true
				}
			}
		case "copy":
			if st, ok := c.Args[0].Type().Underlying().(*types.Slice); ok {
				ms.keys[vc.elemKey(st.Elem())] = true
			}
		case "delete":
			if m, ok := c.Args[0].Type().Underlying().(*types.Map); ok {
				d, _ := vc.mapKeys(m)
				ms.keys[d] = true
			}
		case "clear":
			ms.heap = true
			ms.heapNoKeep = true
		}
		return
	}
	name, fn := vc.calleeName(c)
	if mc, ok := c.Value.(*ssa.MakeClosure); ok && fn == nil {
		fn = mc.Fn.(*ssa.Function)
		name = CanonName(fn)
	}
	if vc.fc != nil {
		for _, sc := range vc.fc.Sites {
			if sc.Kind == "site-ghost" && matchCallee(name, sc.Site) {
				ms.keys["G:"+sc.Ghost.Name] = true
			}
		}
	}
	if _, isDefer := ins.(*ssa.Defer); isDefer {
		return
	}
	if fcu := vc.C.Funcs[name]; fcu != nil {
		for _, u := range fcu.Updates {
			ms.keys["G:"+u.Ghost.Name] = true
		}
	}
	if _, isGo := ins.(*ssa.Go); isGo {
		ms.all = true
		return
	}
	fc := vc.C.Funcs[name]
	if fc == nil && fn != nil && fn.Origin() != nil {
		fc = vc.C.Funcs[CanonName(fn.Origin())]
	}
	if fc != nil && fc.Blocks {
		ms.ghost = true
	}
	ghostOf := func(fc *FuncContract) {
		gn := map[string]bool{}
		for _, e := range fc.Ensures {
			vc.ghostNamesIn(e.Expr, gn)
		}
		for g := range gn {
			if k, _, ok := vc.ghostKey(g); ok {
				ms.keys[k] = true
			}
		}
		if gn["iscopy$"] && c.Signature() != nil {
			for i := 0; i < c.Signature().Results().Len(); i++ {
				ms.keys[vc.iscopyKey(c.Signature().Results().At(i).Type())] = true
			}
		}
	}
	inferred := (fc == nil || !fc.HasMod) && fn != nil && vc.P.InRepo(FuncPkgPath(fn)) && vc.inferPure(fn)
	switch {
	case inferred:
	case fc != nil && fc.Pure:
	case fc != nil && fc.HasMod:
		for _, m := range fc.Modifies {
			switch m {
			case "*":
				ms.all = true
			case "heap", "reachable v", "reachable out":
				ms.heap = true
				if ms.keepSet {
					ms.keep = intersect(ms.keep, fc.Preserves)
				} else {
					ms.keep, ms.keepSet = fc.Preserves, true
				}
			default:
				if k, ok := vc.objModKeyStatic(m, fn, c.Signature()); ok {
					ms.keys[k] = true
				} else {
					ms.pats = append(ms.pats, m)
				}
			}
		}
		ghostOf(fc)
	case fc != nil:
		ms.heap = true
		ms.heapNoKeep = true
		ghostOf(fc)
		if !fc.External && !fc.Trusted {
			ms.all = true
		}
	default:
		ms.heap = true
		ms.heapNoKeep = true
		pk := ""
		if fn != nil {
			pk = FuncPkgPath(fn)
		}
		if fn == nil || vc.P.InRepo(pk) || hasFuncParam(c.Signature()) {
			ms.all = true
		}
	}
}

func (vc *VC) loopMods(li *loopInfo) *modSet {
	ms := &modSet{keys: map[string]bool{}}
	for b := range li.blocks {
		for _, ins := range b.Instrs {
			vc.instrMods(ins, ms, 0)
		}
	}
	return ms
}

// instrMods: what one instruction may modify; a call to a helper that is verified inline contributes what the
// helper's own instructions modify.
func (vc *VC) instrMods(ins ssa.Instruction, ms *modSet, depth int) {
	{
		{
			switch ins := ins.(type) {
			case *ssa.Store:
				for _, k := range vc.storeKeys(ins.Addr) {
					ms.keys[k] = true
				}
			case *ssa.MapUpdate:
				if m, ok := ins.Map.Type().Underlying().(*types.Map); ok {
					d, v := vc.mapKeys(m)
					ms.keys[d], ms.keys[v] = true, true
				}
			case *ssa.Alloc, *ssa.MakeSlice, *ssa.MakeMap, *ssa.MakeClosure, *ssa.MakeChan:
				ms.keys[vc.allocKey()] = true
				if a, ok := ins.(*ssa.Alloc); ok {
					for _, k := range vc.zeroKeys(deref(a.Type())) {
						ms.keys[k] = true
					}
				}
				if a, ok := ins.(*ssa.MakeSlice); ok {
					ms.keys[vc.elemKey(a.Type().Underlying().(*types.Slice).Elem())] = true
				}
				if a, ok := ins.(*ssa.MakeMap); ok {
					d, v := vc.mapKeys(a.Type().Underlying().(*types.Map))
					ms.keys[d], ms.keys[v] = true, true
				}
			case ssa.CallInstruction:
				if call, isCall := ins.(*ssa.Call); isCall && depth < inlMaxDepth && !call.Call.IsInvoke() {
					if callee := call.Call.StaticCallee(); callee != nil && vc.inlinable(callee) {
						for _, cb := range callee.Blocks {
							for _, x := range cb.Instrs {
								vc.instrMods(x, ms, depth+1)
							}
						}
						return
					}
				}
				vc.callMods(ins, ms)
			case *ssa.Next, *ssa.Range:
			case *ssa.UnOp:
				if ins.Op == token.ARROW {
					ms.ghost = true
				}
			case *ssa.Select, *ssa.Send:
				ms.ghost = true
			}
		}
	}
}

// storeKeys: the heap components a store through ptr may change.
func (vc *VC) storeKeys(ptr ssa.Value) []string {
	switch p := ptr.(type) {
	case *ssa.FieldAddr:
		st := deref(p.X.Type())
		ft := st.Underlying().(*types.Struct).Field(p.Field).Type()
		if _, ok := structOf(ft); ok {
			return vc.zeroKeys(ft)
		}
		return []string{vc.fieldKey(st, p.Field)}
	case *ssa.IndexAddr:
		var et types.Type
		switch t := p.X.Type().Underlying().(type) {
		case *types.Slice:
			et = t.Elem()
		case *types.Pointer:
			et = t.Elem().Underlying().(*types.Array).Elem()
		}
		if et != nil {
			if _, ok := structOf(et); ok {
				return vc.zeroKeys(et)
			}
			return []string{vc.elemKey(et)}
		}
	}
	t := deref(ptr.Type())
	if _, ok := structOf(t); ok {
		return vc.zeroKeys(t)
	}
	return []string{vc.cellKey(t)}
}

// zeroKeys: the components holding an object of type t (used for zero-initialisation and whole-object stores).
func (vc *VC) zeroKeys(t types.Type) []string {
	switch u := t.Underlying().(type) {
	case *types.Struct:
		var ks []string
		for i := 0; i < u.NumFields(); i++ {
			ft := u.Field(i).Type()
			if _, ok := structOf(ft); ok {
				ks = append(ks, vc.zeroKeys(ft)...)
			} else if _, ok := ft.Underlying().(*types.Array); ok {
				ks = append(ks, vc.fieldKey(t, i))
			} else {
				ks = append(ks, vc.fieldKey(t, i))
			}
		}
		return ks
	case *types.Array:
		if _, ok := structOf(u.Elem()); ok {
			return vc.zeroKeys(u.Elem())
		}
		return []string{vc.elemKey(u.Elem())}
	}
	return []string{vc.cellKey(t)}
}

func (vc *VC) loopHeader(li *loopInfo) {
	b := li.header
	entrySt := vc.st
	li.entrySt = entrySt
	// entry values of the phis
	entryVals := map[*ssa.Phi]string{}
	for _, ins := range b.Instrs {
		phi, ok := ins.(*ssa.Phi)
		if !ok {
			continue
		}
		ev := vc.freshConst("phi_in_"+phi.Name(), sortOf(phi.Type()))
		for i, p := range b.Preds {
			if vc.backEdge[[2]*ssa.BasicBlock{p, b}] {
				continue
			}
			if _, ok := vc.endState[p]; !ok {
				continue
			}
			vc.assert(fmt.Sprintf("(=> %s (= %s %s))", vc.edgeCond(p, b), ev, vc.val(phi.Edges[i])))
		}
		entryVals[phi] = ev
	}
	invs := vc.loopInvs(li)
	// 1. invariant holds on entry
	for _, c := range invs {
		env := vc.envAt(entrySt, vc.entry)
		vc.bindLoopVars(env, li, entryVals)
		g := vc.trBool(c.Expr, env, c)
		vc.oblige("loop-entry", fmt.Sprintf("loop%d/inv.%d%s", li.ordinal, c.Index, tagSuffix(c.Tags)), g, c.Tags, b.Instrs[0].Pos(), c)
	}
	// 2. havoc what the loop modifies
	ms := vc.loopMods(li)
	hs := entrySt.derive()
	hs.havocKeys = ms.keys
	hs.havocPats = ms.pats
	hs.havocIscopy = ms.iscopy
	if ms.all {
		hs.havocHeap = true
		hs.havocGhst = true
		hs.havocLocal = true
	}
	if ms.heap {
		hs.havocHeap = true
		if !ms.heapNoKeep && !ms.all {
			hs.keepPats = ms.keep
		}
	}
	if ms.ghost {
		hs.havocGhst = true
	}
	vc.st = hs
	li.headSt = hs
	for _, ins := range b.Instrs {
		phi, ok := ins.(*ssa.Phi)
		if !ok {
			continue
		}
		n := vc.declare(vc.valName(phi), sortOf(phi.Type()))
		vc.vals[phi] = n
		li.phiVals[phi] = n
		vc.registerPhiName(phi)
		if phi == li.rangeIx {
			// -1 <= i and i < len follows from the loop structure
			vc.assume(fmt.Sprintf("(>= %s (- 1))", n))
			if lenT := vc.rangeLen(li); lenT != "" {
				vc.assume(fmt.Sprintf("(< %s %s)", n, lenT))
			}
		} else {
			vc.typeFacts(n, phi.Type(), false)
		}
	}
	// 3. assume the invariant
	for _, c := range invs {
		env := vc.envAt(hs, vc.entry)
		vc.bindLoopVars(env, li, li.phiVals)
		g := vc.trBool(c.Expr, env, c)
		vc.assume(g)
	}
}

// rangeLen finds the length term a rangeindex loop compares against ("t112 < t34").
func (vc *VC) rangeLen(li *loopInfo) string {
	b := li.header
	iff, ok := b.Instrs[len(b.Instrs)-1].(*ssa.If)
	if !ok {
		return ""
	}
	bo, ok := iff.Cond.(*ssa.BinOp)
	if !ok || bo.Op != token.LSS {
		return ""
	}
	if _, defined := vc.vals[bo.Y]; !defined {
		if _, isConst := bo.Y.(*ssa.Const); !isConst {
			return ""
		}
	}
	return vc.val(bo.Y)
}

func (vc *VC) loopInvs(li *loopInfo) []*Clause {
	var out []*Clause
	if vc.fc == nil {
		return nil
	}
	for _, c := range vc.fc.Invs {
		if c.Loop == li.ordinal {
			out = append(out, c)
		}
	}
	return out
}

func tagSuffix(tags []string) string {
	if len(tags) == 0 {
		return ""
	}
	return "[" + strings.Join(tags, ",") + "]"
}

// bindLoopVars binds $i (rangeindex loops: number of fully processed elements) and named phis.
func (vc *VC) bindLoopVars(env *specEnv, li *loopInfo, phiVals map[*ssa.Phi]string) {
	for phi, v := range phiVals {
		if phi == li.rangeIx {
			env.vars["$i"] = sval{term: fmt.Sprintf("(+ %s 1)", v), typ: phi.Type()}
			continue
		}
		if phi.Comment != "" && !strings.ContainsAny(phi.Comment, "|&") {
			env.vars[phi.Comment] = sval{term: v, typ: phi.Type()}
		}
	}
}

func (vc *VC) backEdgeCheck(from *ssa.BasicBlock, li *loopInfo) {
	invs := vc.loopInvs(li)
	if len(invs) == 0 {
		return
	}
	b := li.header
	saveReach := vc.reach[from]
	edge := vc.edgeCond(from, b)
	// incoming phi values along this edge
	vals := map[*ssa.Phi]string{}
	idx := -1
	for i, p := range b.Preds {
		if p == from {
			idx = i
		}
	}
	for _, ins := range b.Instrs {
		if phi, ok := ins.(*ssa.Phi); ok {
			vals[phi] = vc.val(phi.Edges[idx])
		}
	}
	for _, c := range invs {
		env := vc.envAt(vc.st, vc.entry)
		vc.bindLoopVars(env, li, vals)
		g := vc.trBool(c.Expr, env, c)
		o := vc.oblige("loop-preserve", fmt.Sprintf("loop%d/inv.%d%s", li.ordinal, c.Index, tagSuffix(c.Tags)), g, c.Tags, from.Instrs[len(from.Instrs)-1].Pos(), c)
		o.Reach = edge
	}
	_ = saveReach
}

// objModKeyStatic: the component of an object-level modifies entry ("p.Field"), resolved from the callee's
// parameter types only (used for loop havoc sets, where the whole component is havoced).
func (vc *VC) objModKeyStatic(m string, fn *ssa.Function, sig *types.Signature) (string, bool) {
	if !strings.Contains(m, ".") || strings.Contains(m, "/") || strings.HasSuffix(m, "*") {
		return "", false
	}
	parts := strings.Split(m, ".")
	var t types.Type
	if fn != nil {
		for _, p := range fn.Params {
			if p.Name() == parts[0] {
				t = p.Type()
			}
		}
	}
	if t == nil && sig != nil {
		if r := sig.Recv(); r != nil && r.Name() == parts[0] {
			t = r.Type()
		}
		for i := 0; i < sig.Params().Len(); i++ {
			if sig.Params().At(i).Name() == parts[0] {
				t = sig.Params().At(i).Type()
			}
		}
	}
	if t == nil {
		return "", false
	}
	for i, name := range parts[1:] {
		st := deref(t)
		s, ok := structOf(st)
		if !ok {
			return "", false
		}
		found := false
		for j := 0; j < s.NumFields(); j++ {
			if recFieldName(st, j) == name {
				found = true
				if i == len(parts)-2 {
					return vc.fieldKey(st, j), true
				}
				t = s.Field(j).Type()
			}
		}
		if !found {
			return "", false
		}
	}
	return "", false
}

// matchCalleeGlob: "nosite strings.*", "nosite (*Regexp).*": every function (method) of the package (type).
func matchCalleeGlob(canon, pat string) bool {
	if !strings.HasSuffix(pat, "*") || strings.HasPrefix(pat, "store:") || strings.HasPrefix(canon, "$dyn") {
		return false
	}
	pre := strings.TrimSuffix(pat, "*")
	if pre == "" {
		return false
	}
	for from := 0; from < len(canon); {
		i := strings.Index(canon[from:], pre)
		if i < 0 {
			return false
		}
		i += from
		if (i == 0 || canon[i-1] == '.' || canon[i-1] == '/' || canon[i-1] == ':') && !strings.Contains(canon[i+len(pre):], "/") {
			return true
		}
		from = i + 1
	}
	return false
}
