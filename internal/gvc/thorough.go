package gvc

import (
	"encoding/json"
	"fmt"
	"os"
	"os/exec"
	"path/filepath"
	"sort"
	"strings"
)

// Extra work of the thorough tier (after every obligation has been posed to all three solvers):
//
//  1. scenario regression: every hand-written scenario that belongs to a function of this property (they were
//     written from the property text when a defect was found) is run against the REAL code; on a tree where the
//     property holds they all pass. A scenario that reproduces is a failing input against the real code and is
//     reported as a violation (race-detector scenarios and the scenarios of open known findings are excluded).
//  2. must-fail corpus: every seeded change of this property under /verif/seeded is applied to a scratch copy of
//     the working tree and the quick check is run on the copy; it must report a VIOLATION. A change that is no
//     longer noticed means the check has lost power: it is listed in the evidence and printed (SELFTEST-MISS).

type thoroughResult struct {
	ScenariosRun    []string `json:"scenarios_run"`
	ScenariosFailed []string `json:"scenarios_reproduced"`
	SeedsRun        int      `json:"seeded_changes_run"`
	SeedsDetected   int      `json:"seeded_changes_detected"`
	SeedsSkipped    []string `json:"seeded_changes_skipped"`
	SeedsMissed     []string `json:"seeded_changes_missed"`
}

func (r *PropResult) thorough(funcs map[string]bool, knownTexts []string) (*thoroughResult, []string) {
	tr := &thoroughResult{}
	var violations []string
	short := map[string]bool{}
	for f := range funcs {
		short[shortName(f)] = true
	}
	seen := map[string]bool{}
	// a scenario belongs to this property if the clause it was written for carries the property's tag
	belongs := func(fnShort, clause string) bool {
		for full := range funcs {
			if shortName(full) != fnShort {
				continue
			}
			fc := r.W.C.Funcs[full]
			if fc == nil {
				return false
			}
			if clause == "" {
				return fc.Tags[r.Prop]
			}
			var all []*Clause
			all = append(all, fc.Requires...)
			all = append(all, fc.Ensures...)
			all = append(all, fc.Sites...)
			all = append(all, fc.Invs...)
			all = append(all, fc.NoSites...)
			for _, c := range all {
				if strings.Contains(c.Text, clause) && (hasTag(c.Tags, r.Prop) || len(c.Tags) == 0) {
					return true
				}
			}
		}
		return false
	}
	for _, cs := range clauseScenarios {
		if !short[cs.fn] || strings.Contains(cs.sc.src, "// gvc:race") || seen[cs.sc.src] || !belongs(cs.fn, cs.clause) {
			continue
		}
		isKnown := false
		for _, kt := range knownTexts {
			if kt != "" && strings.Contains(kt, cs.clause) && cs.clause != "" {
				isKnown = true
			}
		}
		if isKnown {
			continue
		}
		seen[cs.sc.src] = true
		name := cs.fn + " / " + cs.clause
		failed, out, err := runOverlayTest(cs.sc.pkgRel, "TestGvcReplay", cs.sc.src)
		if err != nil {
			tr.ScenariosRun = append(tr.ScenariosRun, name+" (could not be run: "+err.Error()+")")
			continue
		}
		tr.ScenariosRun = append(tr.ScenariosRun, name)
		if failed {
			tr.ScenariosFailed = append(tr.ScenariosFailed, name+": "+cs.sc.what)
			dir := filepath.Join(OutDir(), "replays", r.Prop)
			os.MkdirAll(dir, 0o755)
			p := filepath.Join(dir, sanitizeFile("scenario_"+name)+".json")
			b, _ := json.MarshalIndent(map[string]any{"property": r.Prop, "obligation": "scenario:" + name, "kind": "scenario", "what": cs.sc.what,
				"replay": "REPRODUCED on the real code", "replay_source": cs.sc.src, "replay_output": out}, "", " ")
			os.WriteFile(p, b, 0o644)
			violations = append(violations, p)
			fmt.Printf("  scenario reproduced on the real code: %s\n", cs.sc.what)
		}
	}
	// must-fail corpus
	seeds, _ := filepath.Glob(filepath.Join(VerifDir, "seeded", r.Prop+"-*"))
	sort.Strings(seeds)
	self, _ := os.Executable()
	for _, sd := range seeds {
		id := filepath.Base(sd)
		patch := filepath.Join(sd, "patch.diff")
		if _, err := os.Stat(patch); err != nil {
			continue
		}
		tmp, err := os.MkdirTemp("", "gvc-selftest-")
		if err != nil {
			tr.SeedsSkipped = append(tr.SeedsSkipped, id+": no scratch directory")
			continue
		}
		func() {
			defer os.RemoveAll(tmp)
			work := filepath.Join(tmp, "repo")
			if out, err := exec.Command("cp", "-a", RepoDir, work).CombinedOutput(); err != nil {
				tr.SeedsSkipped = append(tr.SeedsSkipped, id+": copy failed: "+strings.TrimSpace(string(out)))
				return
			}
			os.RemoveAll(filepath.Join(work, ".git"))
			ap := exec.Command("patch", "-p1", "-s", "--no-backup-if-mismatch", "-i", patch)
			ap.Dir = work
			if out, err := ap.CombinedOutput(); err != nil {
				tr.SeedsSkipped = append(tr.SeedsSkipped, id+": patch does not apply to this tree: "+firstLine(string(out)))
				return
			}
			c := exec.Command(self, "check", r.Prop, "--tier", "quick")
			c.Env = append(os.Environ(), "GVC_REPO="+work, "GVC_OUT="+filepath.Join(tmp, "out"), "GVC_VERIF="+VerifDir)
			out, _ := c.CombinedOutput()
			tr.SeedsRun++
			if strings.Contains(string(out), "VIOLATION property="+r.Prop) {
				tr.SeedsDetected++
			} else {
				tr.SeedsMissed = append(tr.SeedsMissed, id)
				fmt.Printf("SELFTEST-MISS: the seeded change %s is no longer reported by the check of %s\n", id, r.Prop)
			}
		}()
	}
	return tr, violations
}

func firstLine(s string) string {
	s = strings.TrimSpace(s)
	if i := strings.Index(s, "\n"); i >= 0 {
		s = s[:i]
	}
	if len(s) > 160 {
		s = s[:160]
	}
	return s
}
