package gvc

import (
	"go/ast"
	"fmt"
	"go/constant"
	"go/types"
	"strings"

	"golang.org/x/tools/go/ssa"
)

// sval is a translated specification value: SMT term plus (when known) its Go type.
type sval struct {
	term string
	typ  types.Type // nil: ghost-sorted Int (or Bool if isBool)
	bool bool
}

func (s sval) isBool() bool { return s.bool || (s.typ != nil && isBoolType(s.typ)) }

type specEnv struct {
	vars      map[string]sval
	freeCells map[string]sval
	st, old   *state
	pkg       *types.Package
	bound     []map[string]sval
	locals    bool // named local variables of the function under verification are visible
	owner     *ssa.Function // the function whose parameter / captured-variable names this environment uses (nil: unknown)
}

func (vc *VC) pkgTypes(path string) *types.Package {
	if p, ok := vc.P.PkgByPath[path]; ok {
		return p.Types
	}
	return nil
}

// newEnv: an environment with no program variables (for callee contracts).
func (vc *VC) newEnv(st, old *state, pkgPath string) *specEnv {
	return &specEnv{vars: map[string]sval{}, freeCells: map[string]sval{}, st: st, old: old, pkg: vc.pkgTypes(pkgPath)}
}

// envAt: environment of the function under verification (parameters, free variables).
func (vc *VC) envAt(st, old *state) *specEnv {
	env := vc.newEnv(st, old, FuncPkgPath(vc.fn))
	env.locals = true
	for i, p := range vc.fn.Params {
		env.vars[p.Name()] = sval{term: vc.vals[p], typ: p.Type()}
		if i == 0 && vc.fn.Signature.Recv() != nil {
			env.vars["recv"] = sval{term: vc.vals[p], typ: p.Type()}
		}
	}
	for _, fv := range vc.fn.FreeVars {
		env.freeCells[fv.Name()] = sval{term: vc.vals[fv], typ: fv.Type()}
	}
	return env
}

// envHere: envAt plus the loop variables visible at the current block.
func (vc *VC) envHere(st *state) *specEnv {
	env := vc.envAt(st, vc.entry)
	env.locals = true
	if vc.cur == nil {
		return env
	}
	// outer loops first so that inner loops shadow
	// every loop whose header dominates the current block: its variables are defined here, also in blocks
	// that leave the loop (error exits) and are therefore not part of the natural loop
	cur := vc.outerBlock() // inside an inlined helper: the block of the call site
	for _, li := range vc.loopList {
		c := vc.blockIn(li.header.Parent())
		if c == nil {
			continue
		}
		if (li.header == c || li.header.Dominates(c)) && len(li.phiVals) > 0 && !li.blocks[c] {
			vc.bindLoopVars(env, li, li.phiVals)
		}
	}
	for _, li := range vc.loopList {
		c := vc.blockIn(li.header.Parent())
		if c != nil && li.blocks[c] && len(li.phiVals) > 0 {
			vc.bindLoopVars(env, li, li.phiVals)
		}
	}
	if li := vc.loopOf(cur); li != nil && len(li.phiVals) > 0 {
		vc.bindLoopVars(env, li, li.phiVals)
	}
	if vc.cur != nil && vc.cur != cur {
		if li := vc.loopOf(vc.cur); li != nil && len(li.phiVals) > 0 {
			vc.bindLoopVars(env, li, li.phiVals)
		}
	}
	return env
}

func (vc *VC) specFail(c *Clause, f string, a ...any) {
	loc := ""
	if c != nil {
		loc = fmt.Sprintf("%s:%d: ", c.File, c.Line)
	}
	vc.fail("%s%s", loc, fmt.Sprintf(f, a...))
}

func (vc *VC) trBool(e Expr, env *specEnv, c *Clause) string {
	vc.lastEnv = env
	v := vc.tr(e, env, c)
	if !v.isBool() {
		vc.specFail(c, "expression %s is not boolean", e)
	}
	return v.term
}

func boolv(t string) sval { return sval{term: t, bool: true} }
func intv(t string) sval  { return sval{term: t, typ: types.Typ[types.Int]} }

func (env *specEnv) lookupBound(name string) (sval, bool) {
	for i := len(env.bound) - 1; i >= 0; i-- {
		if v, ok := env.bound[i][name]; ok {
			return v, true
		}
	}
	return sval{}, false
}

func (vc *VC) tr(e Expr, env *specEnv, c *Clause) sval {
	switch e := e.(type) {
	case *EInt:
		return intv(e.V)
	case *EStr:
		return sval{term: vc.strLit(e.V), typ: types.Typ[types.String]}
	case *EBool:
		if e.V {
			return boolv("true")
		}
		return boolv("false")
	case *ENil:
		return sval{term: "0", typ: types.Typ[types.UntypedNil]}
	case *EType:
		t := vc.resolveType(e.Text, env.pkg, c)
		return intv(fmt.Sprint(vc.typeID(t)))
	case *EIdent:
		return vc.trIdent(e, env, c)
	case *EUnary:
		x := vc.tr(e.X, env, c)
		if e.Op == "!" {
			return boolv(not(x.term))
		}
		return intv(fmt.Sprintf("(- %s)", x.term))
	case *EBinary:
		return vc.trBinary(e, env, c)
	case *ECond:
		cnd := vc.trBool(e.C, env, c)
		a, b := vc.tr(e.A, env, c), vc.tr(e.B, env, c)
		r := a
		r.term = fmt.Sprintf("(ite %s %s %s)", cnd, a.term, b.term)
		return r
	case *EField:
		return vc.trField(e, env, c)
	case *EIndex:
		return vc.trIndex(e, env, c)
	case *ECall:
		return vc.trCall(e, env, c)
	case *EQuant:
		frame := map[string]sval{}
		var bs []string
		for i, qv := range e.Vars {
			ty := qv.Type
			// Go-style grouping: "a, b T"
			if ty == "int" {
				for j := i + 1; j < len(e.Vars); j++ {
					if e.Vars[j].Type != "int" {
						break
					}
				}
			}
			vc.seq++
			n := fmt.Sprintf("q!%s!%d", qv.Name, vc.seq)
			var t types.Type
			sortS := "Int"
			if ty == "bool" {
				sortS = "Bool"
				t = types.Typ[types.Bool]
			} else if ty == "int" {
				t = types.Typ[types.Int]
			} else if ty == "ref" || ty == "any" {
				t = nil
			} else {
				t = vc.resolveType(ty, env.pkg, c)
			}
			frame[qv.Name] = sval{term: q(n), typ: t, bool: sortS == "Bool"}
			bs = append(bs, fmt.Sprintf("(%s %s)", q(n), sortS))
		}
		env.bound = append(env.bound, frame)
		body := vc.trBool(e.Body, env, c)
		var pats []string
		for _, grp := range e.Triggers {
			var ts []string
			for _, t := range grp {
				ts = append(ts, vc.tr(t, env, c).term)
			}
			pats = append(pats, ":pattern ("+strings.Join(ts, " ")+")")
		}
		env.bound = env.bound[:len(env.bound)-1]
		kw := "exists"
		if e.Forall {
			kw = "forall"
		}
		if len(pats) > 0 {
			body = fmt.Sprintf("(! %s %s)", body, strings.Join(pats, " "))
		}
		return boolv(fmt.Sprintf("(%s (%s) %s)", kw, strings.Join(bs, " "), body))
	}
	vc.specFail(c, "cannot translate %s", e)
	return sval{}
}

func (vc *VC) trIdent(e *EIdent, env *specEnv, c *Clause) sval {
	if v, ok := env.lookupBound(e.Name); ok {
		return v
	}
	if v, ok := env.vars[e.Name]; ok {
		if recorded != nil && env.locals {
			for _, p := range vc.fn.Params {
				if p.Name() == e.Name {
					vc.recordName(e.Name, "param", p.Type(), nil)
				}
			}
		}
		return v
	}
	if cell, ok := env.freeCells[e.Name]; ok {
		if recorded != nil {
			vc.recordName(e.Name, "freevar", deref(cell.typ), nil)
		}
		// captured variable: the spec name denotes the current content of the cell
		t := deref(cell.typ)
		if _, isStruct := structOf(t); isStruct {
			return sval{term: cell.term, typ: cell.typ} // struct cell: keep the pointer, fields are read through it
		}
		k := vc.cellKey(t)
		return sval{term: fmt.Sprintf("(select %s %s)", env.st.get(k), cell.term), typ: t}
	}
	if env.locals {
		// Named local variable: the SSA value that holds it at the current point. Candidates are the values
		// the debug information ties to the name (definitions, uses) and the phi nodes created for it; the
		// right one is the candidate defined in the NEAREST dominating block (a stale, older definition must
		// never be picked when the variable was reassigned on some path: SSA then has a phi at the join).
		refs := vc.localRefs[e.Name]
		best := -1
		bestDepth := -1
		// a ghost variable of the contracts is never shadowed by a local of a helper that is verified inline (the
		// helper's author cannot know the ghost names; a refactoring must not capture them)
		_, gdecl, isGhost := vc.ghostKey(e.Name)
		isGhost = isGhost && (gdecl == nil || gdecl.Kind == "var")
		for i, r := range refs {
			if isGhost && r.b.Parent() != vc.fn {
				continue
			}
			inForce, level := vc.dominatesHere(r.b)
			if !inForce {
				continue
			}
			if _, isTuple := r.v.Type().(*types.Tuple); isTuple {
				continue
			}
			if _, live := vc.vals[r.v]; !live && r.b.Parent() != vc.fn {
				continue // value of an inlined instance that has ended
			}
			d := level*100000 + domDepth(r.b)
			if d > bestDepth || (d == bestDepth && i > best) {
				best, bestDepth = i, d
			}
		}
		if best >= 0 {
			r := refs[best]
			if recorded != nil {
				t := r.v.Type()
				if r.cell {
					t = deref(t)
				}
				var dv ssa.Value
				for _, rr := range refs {
					if !rr.cell && vc.defOf(rr.v) != "" {
						dv = rr.v
						break
					}
				}
				vc.recordName(e.Name, "local", t, dv)
			}
			if r.cell {
				ct := deref(r.v.Type())
				if _, isStruct := structOf(ct); isStruct {
					return sval{term: vc.val(r.v), typ: r.v.Type()}
				}
				return sval{term: fmt.Sprintf("(select %s %s)", env.st.get(vc.cellKey(ct)), vc.val(r.v)), typ: ct}
			}
			return sval{term: vc.val(r.v), typ: r.v.Type()}
		}
	}
	if key, gd, ok := vc.ghostKey(e.Name); ok && (gd == nil || gd.Kind == "var") {
		s := sval{term: env.st.get(key), typ: types.Typ[types.Int]}
		if gd != nil && gd.Result == "bool" {
			s = boolv(env.st.get(key))
		} else if gd != nil && gd.Result != "int" && gd.Result != "" && gd.Result != "ref" && gd.Result != "any" {
			s.typ = vc.resolveType(gd.Result, vc.pkgTypes(gd.Pkg), c)
		}
		return s
	}
	if env.pkg != nil {
		if obj := env.pkg.Scope().Lookup(e.Name); obj != nil {
			return vc.trObject(obj, env, c)
		}
	}
	// the variable may have been renamed: fall back to the recorded kind/type/definition of the name
	owner := env.owner
	if owner == nil && env.locals {
		owner = vc.fn
	}
	if owner != nil && !vc.rebinding {
		if n := vc.rebind(owner, e.Name); n != "" {
			vc.rebinding = true
			defer func() { vc.rebinding = false }()
			return vc.trIdent(&EIdent{Name: n}, env, c)
		}
	}
	vc.specFail(c, "unknown identifier %q", e.Name)
	return sval{}
}

func domDepth(b *ssa.BasicBlock) int {
	d := 0
	for x := b.Idom(); x != nil; x = x.Idom() {
		d++
	}
	return d
}

func (vc *VC) trObject(obj types.Object, env *specEnv, c *Clause) sval {
	switch o := obj.(type) {
	case *types.Const:
		switch o.Val().Kind() {
		case constant.Int:
			s := o.Val().ExactString()
			if strings.HasPrefix(s, "-") {
				s = "(- " + s[1:] + ")"
			}
			return sval{term: s, typ: o.Type()}
		case constant.String:
			return sval{term: vc.strLit(constant.StringVal(o.Val())), typ: o.Type()}
		case constant.Bool:
			return boolv(fmt.Sprint(constant.BoolVal(o.Val())))
		}
	case *types.Var:
		// package-level variable: a global cell
		g := vc.globalRef(o.Pkg().Path() + "." + o.Name())
		k := vc.cellKey(o.Type())
		return sval{term: fmt.Sprintf("(select %s %s)", env.st.get(k), g), typ: o.Type()}
	}
	vc.specFail(c, "cannot use %s in a specification", obj)
	return sval{}
}

func (vc *VC) findImport(env *specEnv, name string) *types.Package {
	if env.pkg != nil {
		for _, imp := range env.pkg.Imports() {
			if imp.Name() == name {
				return imp
			}
		}
		if env.pkg.Name() == name {
			return env.pkg
		}
	}
	// fall back: any loaded package with that name inside the repository, then anywhere
	var found *types.Package
	for path, p := range vc.P.PkgByPath {
		if p.Types != nil && p.Types.Name() == name {
			if vc.P.InRepo(path) {
				return p.Types
			}
			if found == nil || len(path) < len(found.Path()) {
				found = p.Types
			}
		}
	}
	return found
}

func (vc *VC) trField(e *EField, env *specEnv, c *Clause) sval {
	// result.N
	if id, ok := e.X.(*EIdent); ok {
		if id.Name == "result" {
			if v, ok := env.vars["result."+e.Name]; ok {
				return v
			}
		}
		// package-qualified object
		if _, isVar := env.vars[id.Name]; !isVar {
			if _, isB := env.lookupBound(id.Name); !isB {
				if _, isCell := env.freeCells[id.Name]; !isCell {
					if _, _, isGhost := vc.ghostKey(id.Name); !isGhost && len(vc.localRefs[id.Name]) == 0 {
						// (a local variable of the function shadows a package of the same name; where it is not in
						// scope the clause is not evaluated, as for any other local)
						if vc.hasLocalNamed(id.Name) {
							vc.fail("unknown identifier %s (a local variable that is not in scope here)", id.Name)
						}
						if p := vc.findImport(env, id.Name); p != nil {
							if obj := p.Scope().Lookup(e.Name); obj != nil {
								return vc.trObject(obj, env, c)
							}
						}
					}
				}
			}
		}
	}
	x := vc.tr(e.X, env, c)
	if x.typ == nil {
		vc.specFail(c, "field %s of untyped value %s", e.Name, e.X)
	}
	t := x.typ
	viaPtr := false
	if p, ok := t.Underlying().(*types.Pointer); ok {
		t = p.Elem()
		viaPtr = true
	}
	s, ok := structOf(t)
	if !ok {
		vc.specFail(c, "%s has no fields (type %s)", e.X, typeStr(x.typ))
	}
	for i := 0; i < s.NumFields(); i++ {
		f := s.Field(i)
		if recFieldName(t, i) != e.Name {
			continue
		}
		ft := f.Type()
		if viaPtr {
			if _, isStruct := structOf(ft); isStruct {
				return sval{term: vc.subRef(t, i, x.term), typ: types.NewPointer(ft)}
			}
			k := vc.fieldKey(t, i)
			return sval{term: fmt.Sprintf("(select %s %s)", env.st.get(k), x.term), typ: ft}
		}
		return sval{term: fmt.Sprintf("(%s %s)", vc.fvFun(t, i), x.term), typ: ft}
	}
	// promoted field through an embedded struct
	for i := 0; i < s.NumFields(); i++ {
		f := s.Field(i)
		if !f.Embedded() {
			continue
		}
		inner := &EField{X: &EField{X: e.X, Name: f.Name()}, Name: e.Name}
		if es, ok := structOf(deref(f.Type())); ok {
			for j := 0; j < es.NumFields(); j++ {
				if recFieldName(deref(f.Type()), j) == e.Name {
					return vc.trField(inner, env, c)
				}
			}
		}
	}
	vc.specFail(c, "type %s has no field %s", typeStr(t), e.Name)
	return sval{}
}

func (vc *VC) trIndex(e *EIndex, env *specEnv, c *Clause) sval {
	x := vc.tr(e.X, env, c)
	i := vc.tr(e.I, env, c)
	if x.typ == nil {
		vc.specFail(c, "index of untyped value %s", e.X)
	}
	switch t := x.typ.Underlying().(type) {
	case *types.Slice:
		et := t.Elem()
		if _, ok := structOf(et); ok {
			f := vc.declareFun("ea!"+shortType(et), []string{"Int", "Int"}, "Int")
			return sval{term: fmt.Sprintf("(%s (sl_arr %s) (idx (sl_off %s) %s))", f, x.term, x.term, i.term), typ: types.NewPointer(et)}
		}
		k := vc.elemKey(et)
		return sval{term: fmt.Sprintf("(select (select %s (sl_arr %s)) (idx (sl_off %s) %s))", env.st.get(k), x.term, x.term, i.term), typ: et}
	case *types.Map:
		_, vk := vc.mapKeys(t)
		return sval{term: fmt.Sprintf("(select (select %s %s) %s)", env.st.get(vk), x.term, i.term), typ: t.Elem()}
	case *types.Basic:
		return intv(fmt.Sprintf("(sat %s %s)", x.term, i.term))
	}
	vc.specFail(c, "cannot index %s of type %s", e.X, typeStr(x.typ))
	return sval{}
}

func (vc *VC) trBinary(e *EBinary, env *specEnv, c *Clause) sval {
	if e.Op == "in" {
		k := vc.tr(e.X, env, c)
		m := vc.tr(e.Y, env, c)
		if m.typ != nil {
			if mt, ok := m.typ.Underlying().(*types.Map); ok {
				d, _ := vc.mapKeys(mt)
				return boolv(fmt.Sprintf("(and (not (= %s 0)) (select (select %s %s) %s))", m.term, env.st.get(d), m.term, k.term))
			}
		}
		vc.specFail(c, "'in' needs a map on the right: %s", e)
	}
	x, y := vc.tr(e.X, env, c), vc.tr(e.Y, env, c)
	switch e.Op {
	case "&&":
		return boolv(and(x.term, y.term))
	case "||":
		return boolv(or(x.term, y.term))
	case "==>":
		return boolv(fmt.Sprintf("(=> %s %s)", x.term, y.term))
	case "<==>":
		return boolv(fmt.Sprintf("(= %s %s)", x.term, y.term))
	case "==", "!=":
		if x.isBool() != y.isBool() {
			vc.specFail(c, "comparison of bool with non-bool in %s", e)
		}
		eq := fmt.Sprintf("(= %s %s)", x.term, y.term)
		if e.Op == "!=" {
			eq = not(eq)
		}
		return boolv(eq)
	case "<", "<=", ">", ">=":
		if x.typ != nil && isString(x.typ) {
			switch e.Op {
			case "<":
				return boolv(fmt.Sprintf("(slt %s %s)", x.term, y.term))
			case ">":
				return boolv(fmt.Sprintf("(slt %s %s)", y.term, x.term))
			case "<=":
				return boolv(fmt.Sprintf("(not (slt %s %s))", y.term, x.term))
			default:
				return boolv(fmt.Sprintf("(not (slt %s %s))", x.term, y.term))
			}
		}
		return boolv(fmt.Sprintf("(%s %s %s)", e.Op, x.term, y.term))
	case "+":
		if x.typ != nil && isString(x.typ) {
			t := fmt.Sprintf("(scat %s %s)", x.term, y.term)
			return sval{term: t, typ: x.typ}
		}
		return intv(fmt.Sprintf("(+ %s %s)", x.term, y.term))
	case "-", "*":
		return intv(fmt.Sprintf("(%s %s %s)", e.Op, x.term, y.term))
	case "/":
		return intv(fmt.Sprintf("(godiv %s %s)", x.term, y.term))
	case "%":
		return intv(fmt.Sprintf("(gomod %s %s)", x.term, y.term))
	}
	vc.specFail(c, "unknown operator %s", e.Op)
	return sval{}
}

func (vc *VC) trCall(e *ECall, env *specEnv, c *Clause) sval {
	argN := func(n int) {
		if len(e.Args) != n {
			vc.specFail(c, "%s takes %d argument(s)", e.Fun, n)
		}
	}
	switch e.Fun {
	case "old":
		argN(1)
		sub := *env
		sub.st = env.old
		return vc.tr(e.Args[0], &sub, c)
	case "len":
		argN(1)
		x := vc.tr(e.Args[0], env, c)
		if x.typ != nil {
			switch t := x.typ.Underlying().(type) {
			case *types.Slice:
				return intv(fmt.Sprintf("(sl_len %s)", x.term))
			case *types.Basic:
				return intv(fmt.Sprintf("(slen %s)", x.term))
			case *types.Map:
				d, _ := vc.mapKeys(t)
				return intv(fmt.Sprintf("(maplen (select %s %s))", env.st.get(d), x.term))
			}
		}
		vc.specFail(c, "len of %s", e.Args[0])
	case "cap":
		argN(1)
		x := vc.tr(e.Args[0], env, c)
		return intv(fmt.Sprintf("(sl_cap %s)", x.term))
	case "dyn":
		argN(1)
		x := vc.tr(e.Args[0], env, c)
		return intv(fmt.Sprintf("(itag %s)", x.term))
	case "payload":
		argN(1)
		x := vc.tr(e.Args[0], env, c)
		return sval{term: fmt.Sprintf("(ipl %s)", x.term)}
	case "as":
		// as(x, type(T)): payload of interface value x viewed as T
		argN(2)
		x := vc.tr(e.Args[0], env, c)
		ty, ok := e.Args[1].(*EType)
		if !ok {
			vc.specFail(c, "as(x, type(T))")
		}
		t := vc.resolveType(ty.Text, env.pkg, c)
		if isBoolType(t) {
			return boolv(fmt.Sprintf("(iplb %s)", x.term))
		}
		return sval{term: fmt.Sprintf("(ipl %s)", x.term), typ: t}
	case "box":
		// box(type(T), v): interface value holding v
		argN(2)
		ty, ok := e.Args[0].(*EType)
		if !ok {
			vc.specFail(c, "box(type(T), v)")
		}
		t := vc.resolveType(ty.Text, env.pkg, c)
		v := vc.tr(e.Args[1], env, c)
		return sval{term: vc.boxTerm(t, v.term), typ: types.NewInterfaceType(nil, nil)}
	case "unchanged":
		// unchanged(table): the whole ghost table equals its value in the old state
		argN(1)
		id, ok := e.Args[0].(*EIdent)
		if !ok {
			vc.specFail(c, "unchanged(<ghost table or variable>)")
		}
		key, _, ok := vc.ghostKey(id.Name)
		if !ok {
			vc.specFail(c, "unknown ghost state %q", id.Name)
		}
		return boolv(fmt.Sprintf("(= %s %s)", env.st.get(key), env.old.get(key)))
	case "conv":
		// conv(type(T), x): the Go conversion T(x) between strings and byte/rune slices (an uninterpreted
		// function of x, the same one the engine uses for the conversion instruction)
		argN(2)
		ty, ok := e.Args[0].(*EType)
		if !ok {
			vc.specFail(c, "conv(type(T), x)")
		}
		t := vc.resolveType(ty.Text, env.pkg, c)
		x := vc.tr(e.Args[1], env, c)
		return sval{term: fmt.Sprintf("(uf_conv %d %s)", vc.typeID(t), x.term), typ: t}
	case "unmodified":
		// unmodified(p): no field of the struct p points to has been written since the old state
		argN(1)
		x := vc.tr(e.Args[0], env, c)
		if x.typ == nil {
			vc.specFail(c, "unmodified needs a pointer to a struct")
		}
		stt := deref(x.typ)
		sT, isStruct := structOf(stt)
		if !isStruct {
			vc.specFail(c, "unmodified needs a pointer to a struct, got %s", x.typ)
		}
		var conj []string
		for i := 0; i < sT.NumFields(); i++ {
			k := vc.fieldKey(stt, i)
			conj = append(conj, fmt.Sprintf("(= (select %s %s) (select %s %s))", env.st.get(k), x.term, env.old.get(k), x.term))
		}
		return boolv(and(conj...))
	case "iscopy":
		argN(2)
		x, y := vc.tr(e.Args[0], env, c), vc.tr(e.Args[1], env, c)
		if x.typ == nil {
			vc.specFail(c, "iscopy needs a typed first argument")
		}
		key := vc.iscopyKey(x.typ)
		return boolv(nestedSelect(env.st.get(key), []string{x.term, y.term}))
	case "lockfree":
		// lockfree(): this goroutine holds none of the mutexes the contracts track (said of blocking calls: whoever
		// waits for a task, a group or a deduplicated execution while holding a lock stops everybody who needs it)
		argN(0)
		hk, _, ok := vc.ghostKey("held")
		if !ok {
			vc.specFail(c, "lockfree(): no lock set is declared")
		}
		return boolv(fmt.Sprintf("(= %s ((as const (Array Int Bool)) false))", env.st.get(hk)))
	case "fresh":
		argN(1)
		x := vc.tr(e.Args[0], env, c)
		return boolv(fmt.Sprintf("(> %s %s)", x.term, env.old.get(vc.allocKey())))
	case "allocated":
		argN(1)
		x := vc.tr(e.Args[0], env, c)
		return boolv(fmt.Sprintf("(and (> %s 0) (<= %s %s))", x.term, x.term, env.st.get(vc.allocKey())))
	case "arr":
		argN(1)
		x := vc.tr(e.Args[0], env, c)
		return sval{term: fmt.Sprintf("(sl_arr %s)", x.term)}
	case "cat":
		argN(2)
		x, y := vc.tr(e.Args[0], env, c), vc.tr(e.Args[1], env, c)
		return sval{term: fmt.Sprintf("(scat %s %s)", x.term, y.term), typ: types.Typ[types.String]}
	case "clofn":
		argN(1)
		x := vc.tr(e.Args[0], env, c)
		return sval{term: fmt.Sprintf("(clofn %s)", x.term)}
	case "fn":
		// fn("canonical-or-short name"): identity of a function
		argN(1)
		s, ok := e.Args[0].(*EStr)
		if !ok {
			vc.specFail(c, "fn(\"name\")")
		}
		f := vc.lookupFunc(s.V, env)
		if f == nil {
			vc.specFail(c, "unknown function %q", s.V)
		}
		return sval{term: fmt.Sprint(vc.funcID(f))}
	case "captured":
		// captured(c, "fn", "var"): value variable var had when closure c (of function fn) was made
		argN(3)
		x := vc.tr(e.Args[0], env, c)
		fs, ok1 := e.Args[1].(*EStr)
		vs, ok2 := e.Args[2].(*EStr)
		if !ok1 || !ok2 {
			vc.specFail(c, "captured(c, \"fn\", \"var\")")
		}
		f := vc.lookupFunc(fs.V, env)
		if f == nil {
			vc.specFail(c, "unknown function %q", fs.V)
		}
		for i, fv := range f.FreeVars {
			if fv.Name() == vs.V {
				return sval{term: fmt.Sprintf("(%s %s)", vc.captFun(f, i), x.term), typ: deref(fv.Type())}
			}
		}
		if n := vc.rebind(f, vs.V); n != "" {
			for i, fv := range f.FreeVars {
				if fv.Name() == n {
					return sval{term: fmt.Sprintf("(%s %s)", vc.captFun(f, i), x.term), typ: deref(fv.Type())}
				}
			}
		}
		vc.specFail(c, "%s captures no variable %q", fs.V, vs.V)
	case "bound":
		// bound(c, k): k-th binding (cell pointer) of closure value c
		argN(2)
		x := vc.tr(e.Args[0], env, c)
		k, ok := e.Args[1].(*EInt)
		if !ok {
			vc.specFail(c, "bound(c, <int>)")
		}
		f := vc.declareFun("clobind!"+k.V, []string{"Int"}, "Int")
		return sval{term: fmt.Sprintf("(%s %s)", f, x.term)}
	}
	// ghost facts and functions
	gd, ok := vc.C.Ghosts[e.Fun]
	if !ok {
		vc.specFail(c, "unknown function %q", e.Fun)
	}
	if len(e.Args) != len(gd.Params) {
		vc.specFail(c, "%s takes %d argument(s)", e.Fun, len(gd.Params))
	}
	var args []string
	var sorts []string
	for i, a := range e.Args {
		v := vc.tr(a, env, c)
		args = append(args, v.term)
		if gd.Params[i].Type == "bool" {
			sorts = append(sorts, "Bool")
		} else {
			if v.isBool() {
				vc.specFail(c, "argument %d of %s is boolean, declared %s", i+1, e.Fun, gd.Params[i].Type)
			}
			sorts = append(sorts, "Int")
		}
	}
	switch gd.Kind {
	case "fact":
		key, _, _ := vc.ghostKey(e.Fun)
		return boolv(nestedSelect(env.st.get(key), args))
	case "table":
		key, _, _ := vc.ghostKey(e.Fun)
		t := nestedSelect(env.st.get(key), args)
		if gd.Result == "bool" {
			return boolv(t)
		}
		var rt types.Type
		if gd.Result == "int" {
			rt = types.Typ[types.Int]
		} else if gd.Result != "ref" && gd.Result != "any" && gd.Result != "" {
			rt = vc.resolveType(gd.Result, vc.pkgTypes(gd.Pkg), c)
		}
		return sval{term: t, typ: rt}
	case "func":
		rs := "Int"
		if gd.Result == "bool" {
			rs = "Bool"
		}
		f := vc.declareFun("gf!"+gd.Name, sorts, rs)
		t := f
		if len(args) > 0 {
			t = fmt.Sprintf("(%s %s)", f, strings.Join(args, " "))
		}
		if rs == "Bool" {
			return boolv(t)
		}
		var rt types.Type
		if gd.Result != "int" && gd.Result != "ref" && gd.Result != "" {
			rt = vc.resolveType(gd.Result, vc.pkgTypes(gd.Pkg), c)
		} else if gd.Result == "int" {
			rt = types.Typ[types.Int]
		}
		return sval{term: t, typ: rt}
	}
	vc.specFail(c, "%s is a ghost variable, not a function", e.Fun)
	return sval{}
}

func (vc *VC) lookupFunc(name string, env *specEnv) *ssa.Function {
	if f, ok := vc.P.Funcs[name]; ok {
		return f
	}
	if env.pkg != nil {
		if f, ok := vc.P.Funcs[env.pkg.Path()+"."+name]; ok {
			return f
		}
	}
	var found *ssa.Function
	for n, f := range vc.P.Funcs {
		if matchCallee(n, name) {
			if found != nil {
				return nil
			}
			found = f
		}
	}
	return found
}

// resolveType parses a Go type written in a contract, relative to package pkg.
func (vc *VC) resolveType(text string, pkg *types.Package, c *Clause) types.Type {
	text = strings.TrimSpace(text)
	switch {
	case strings.HasPrefix(text, "*"):
		return types.NewPointer(vc.resolveType(text[1:], pkg, c))
	case strings.HasPrefix(text, "[]"):
		return types.NewSlice(vc.resolveType(text[2:], pkg, c))
	case strings.HasPrefix(text, "map["):
		depth := 0
		for i := 3; i < len(text); i++ {
			if text[i] == '[' {
				depth++
			}
			if text[i] == ']' {
				depth--
				if depth == 0 {
					return types.NewMap(vc.resolveType(text[4:i], pkg, c), vc.resolveType(text[i+1:], pkg, c))
				}
			}
		}
	}
	if obj := types.Universe.Lookup(text); obj != nil {
		if tn, ok := obj.(*types.TypeName); ok {
			return tn.Type()
		}
	}
	if i := strings.LastIndex(text, "."); i >= 0 {
		pn, tn := text[:i], text[i+1:]
		var cands []*types.Package
		if !strings.Contains(pn, "/") {
			if p := vc.findImport(&specEnv{pkg: pkg}, pn); p != nil {
				cands = append(cands, p)
			}
		}
		if pp, ok := vc.P.PkgByPath[pn]; ok {
			cands = append(cands, pp.Types)
		}
		for _, p := range cands {
			if obj := p.Scope().Lookup(tn); obj != nil {
				if t, ok := obj.(*types.TypeName); ok {
					return t.Type()
				}
			}
		}
	} else if pkg != nil {
		if obj := pkg.Scope().Lookup(text); obj != nil {
			if t, ok := obj.(*types.TypeName); ok {
				return t.Type()
			}
		}
	}
	vc.specFail(c, "cannot resolve type %q", text)
	return nil
}

// hasLocalNamed: the function declares a local variable of this name somewhere (static scan).
func (vc *VC) hasLocalNamed(name string) bool {
	if vc.localNames == nil {
		vc.localNames = map[string]bool{}
		for _, b := range vc.fn.Blocks {
			for _, ins := range b.Instrs {
				switch x := ins.(type) {
				case *ssa.Alloc:
					if x.Comment != "" {
						vc.localNames[x.Comment] = true
					}
				case *ssa.DebugRef:
					if id, ok := x.Expr.(*ast.Ident); ok {
						if _, isFn := x.X.(*ssa.Function); !isFn {
							vc.localNames[id.Name] = true
						}
					}
				}
			}
		}
	}
	return vc.localNames[name]
}
