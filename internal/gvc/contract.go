package gvc

import (
	"bufio"

	"golang.org/x/tools/go/ssa"
	"fmt"
	"os"
	"path/filepath"
	"regexp"
	"sort"
	"strconv"
	"strings"
)

// Clause is one specification clause of a function contract.
type Clause struct {
	Kind   string // requires, ensures, invariant, site-requires, site-ensures, site-ghost, cover
	Expr   Expr
	Text   string
	Tags   []string
	Loop   int    // loop ordinal for invariants (1-based)
	Site   string // callee pattern for site clauses
	SiteN  int    // ordinal of the call (1-based), 0 = every matching call
	File   string
	Line   int
	Ghost  *GhostSet // for site-ghost
	Index  int       // ordinal among clauses of the same kind in the function
	KnownF []string
	Derived bool   // assumed at call sites, not checked in the body (definition of a ghost fact)
	Detail  string // stable detail used in obligation names (e.g. field:Watch)
}

// GhostSet is a ghost assignment "set name(args)" (facts become true) or "name := expr".
type GhostSet struct {
	Name string
	Args []Expr
	Val  Expr // nil = true for facts
	Cond Expr // optional guard: "if cond"
}

type FuncContract struct {
	Name      string // canonical
	Pkg       string
	File      string
	Line      int
	Trusted   bool // contract is assumed, body not verified (dependency or declared trusted)
	Pure      bool // modifies nothing (heap and ghost)
	Allocates bool // pure but returns freshly allocated objects
	Deterministic bool // results are a function of the argument values only (no state read)
	Blocks    bool // may suspend the caller: shared ghost state is weakened
	Sweep     bool // safety obligations only (zero annotation)
	SweepTags []string
	Requires  []*Clause
	TrustedFrame bool // frame assumed, body verified for everything else
	NoPanic   bool // no-panic (safety) obligations in addition to the functional clauses and the frame
	Spawns    bool // starts its function argument in another goroutine (it may run at any later time)
	Entry     []*Clause // assumed at entry, not imposed on callers (API entry points); listed as assumptions
	Ensures   []*Clause
	Invs      []*Clause
	Sites     []*Clause
	Updates   []*Clause // precise ghost-table updates performed by the function
	NoSites   []*Clause // operations that must not occur in the function (static)
	Inits     []*Clause // ghost statements executed at function entry (scratch observation variables)
	Modifies  []string
	Preserves []string // with 'modifies heap': components that are nevertheless unchanged
	HasMod    bool
	Nilable   map[string]bool // parameter names or "result", "result.N"
	AllowGo   bool
	Decreases []*Clause
	Tags      map[string]bool
	External  bool // comes from /verif/contracts/deps
	NoSafety  bool
	DeferRule string
	ResultSpec map[int]string  // result index -> fnspec name (function-typed results)
	ParamSpec  map[string]string // parameter name -> fnspec name
	Implements []string          // this function (closure) implements the named fnspecs
	OwnRequires []*Clause        // requires written on the function itself (not inherited from a fnspec)
	IsFnSpec   bool
}

type GhostDecl struct {
	Name     string
	Kind     string // fact, func, var
	Params   []QVar
	Result   string // for func/var: "int", "bool", type text
	Monotone bool
	Scratch  bool // observation variable of one function: callers do not track it
	Local    bool // thread-local: unaffected by blocking operations and other goroutines
	Pkg      string
	File     string
	Line     int
}

// Guarded declares that a field may only be used while the mutex in another field of the same object is held.
type Guarded struct {
	Field, Mutex string // "pkgpath.Type.field"
	Except       []string // functions (short names) in which the rule is not applied, with the reason in the contract file
	Tags         []string
	File         string
	Line         int
}

type FieldsCopied struct {
	Func string // canonical function name
	Tags []string
	Pkg  string
	File string
	Line int
	Skip map[string]string // field -> reason
	// fields_decoded: the function is a decoder that fills Local (a local struct) from the document and then
	// stores its fields into the receiver
	Local string
}

type Contracts struct {
	Funcs   map[string]*FuncContract
	Ghosts  map[string]*GhostDecl
	NonNil  map[string]bool // "pkgpath.Type.Field" or "elem:<type string>"
	FCopied []*FieldsCopied
	Axioms  []*Clause
	TypeInvs []*Clause
	Guarded  []*Guarded
	StateFields []*StateFields
	Callers  []*CallersRule
	MapRanges []*CallersRule
	SweepMethods []*CallersRule // "sweep_methods Name ...": every repository method of that name is swept, contract or not
	ImplMethods  []*CallersRule // "impl_methods (Iface).Method ...": every repository implementation is verified against the interface contract
	SpawnedWrites []*CallersRule
	pureMemo map[*ssa.Function]int
	Defines  map[string]string // $NAME macros (textual)
	Files   []string
	Witness []string
}

var tagRe = regexp.MustCompile(`\s*\[((?:C\d+)(?:\s*,\s*C\d+)*)\]\s*$`)

var clauseKeywords = map[string]bool{
	"func": true, "requires": true, "ensures": true, "modifies": true, "pure": true, "trusted": true,
	"loop": true, "site": true, "ghost": true, "nonnil": true, "guarded_by": true, "entry": true, "state_fields": true, "callers": true, "map_ranges": true, "sweep_methods": true, "impl_methods": true, "spawned_writes": true, "nilable": true, "fields_copied": true, "fields_decoded": true,
	"sweep": true, "package": true, "axiom": true, "allow": true, "witness": true, "nosafety": true, "spawns": true, "nopanic": true,
	"deferrule": true, "skipfield": true, "preserves": true, "typeinv": true, "updates": true, "deterministic": true, "init": true, "nosite": true, "blocks": true, "define": true, "fnspec": true, "result": true, "param": true, "implements": true,
}

// LoadContracts reads //@ clauses from zz_contracts_verif.go files under repo and *.gvc files under depsDir.
func LoadContracts(repo, modPath, depsDir string) (*Contracts, error) {
	cs := &Contracts{Funcs: map[string]*FuncContract{}, Ghosts: map[string]*GhostDecl{}, NonNil: map[string]bool{}}
	var files []string
	filepath.Walk(repo, func(path string, info os.FileInfo, err error) error {
		if err != nil {
			return nil
		}
		if info.IsDir() {
			n := info.Name()
			if n == ".git" || n == "node_modules" || n == "testdata" || n == "website" {
				return filepath.SkipDir
			}
			return nil
		}
		if info.Name() == "zz_contracts_verif.go" {
			files = append(files, path)
		}
		return nil
	})
	sort.Strings(files)
	deps, _ := filepath.Glob(filepath.Join(depsDir, "*.gvc"))
	sort.Strings(deps)
	for _, f := range deps {
		if err := cs.parseFile(f, "", true); err != nil {
			return nil, err
		}
	}
	for _, f := range files {
		rel, _ := filepath.Rel(repo, filepath.Dir(f))
		pkg := modPath
		if rel != "." {
			pkg = modPath + "/" + filepath.ToSlash(rel)
		}
		if err := cs.parseFile(f, pkg, false); err != nil {
			return nil, err
		}
	}
	cs.Files = append(files, deps...)
	// a function that implements a fnspec is verified against the spec's clauses
	for _, fc := range cs.Funcs {
		if len(fc.Implements) == 0 {
			continue
		}
		fc.OwnRequires = append([]*Clause{}, fc.Requires...)
		for _, impl := range fc.Implements {
			spec := cs.Funcs["$fnspec."+impl]
			if spec == nil {
				return nil, fmt.Errorf("%s:%d: unknown fnspec %q", fc.File, fc.Line, impl)
			}
			fc.Requires = append(fc.Requires, spec.Requires...)
			fc.Ensures = append(fc.Ensures, spec.Ensures...)
			if spec.HasMod {
				fc.HasMod, fc.Pure, fc.Allocates = true, spec.Pure, spec.Allocates
				fc.Modifies = append(fc.Modifies, spec.Modifies...)
			}
			fc.Blocks = fc.Blocks || spec.Blocks
			for t := range spec.Tags {
				fc.Tags[t] = true
			}
		}
	}
	return cs, nil
}

func (cs *Contracts) parseFile(path, pkg string, external bool) error {
	fh, err := os.Open(path)
	if err != nil {
		return err
	}
	defer fh.Close()
	type rawClause struct {
		text string
		line int
	}
	var raws []rawClause
	sc := bufio.NewScanner(fh)
	sc.Buffer(make([]byte, 1<<20), 1<<20)
	ln := 0
	for sc.Scan() {
		ln++
		line := strings.TrimSpace(sc.Text())
		var body string
		if external {
			if line == "" || strings.HasPrefix(line, "#") || strings.HasPrefix(line, "--") {
				continue
			}
			body = strings.TrimPrefix(line, "//@")
			body = strings.TrimSpace(body)
		} else {
			if !strings.HasPrefix(line, "//@") {
				continue
			}
			body = strings.TrimSpace(strings.TrimPrefix(line, "//@"))
		}
		if i := strings.Index(body, " -- "); i >= 0 {
			// a trailing tag list after the comment still belongs to the clause
			tagPart := ""
			if m := tagRe.FindString(body); m != "" && strings.Index(body, m) > i {
				tagPart = " " + strings.TrimSpace(m)
			}
			body = strings.TrimSpace(body[:i]) + tagPart
		}
		if body == "" {
			continue
		}
		first := body
		if i := strings.IndexAny(body, " \t"); i >= 0 {
			first = body[:i]
		}
		if !clauseKeywords[first] && len(raws) > 0 {
			raws[len(raws)-1].text += " " + body
			continue
		}
		raws = append(raws, rawClause{body, ln})
	}
	var cur *FuncContract
	counts := map[string]int{}
	if cs.Defines == nil {
		cs.Defines = map[string]string{}
	}
	for _, rc := range raws {
		text := rc.text
		if strings.HasPrefix(text, "define ") {
			r := strings.TrimSpace(text[7:])
			i := strings.Index(r, "=")
			if i < 0 {
				return fmt.Errorf("%s:%d: define NAME = text", path, rc.line)
			}
			cs.Defines[strings.TrimSpace(r[:i])] = strings.TrimSpace(r[i+1:])
			continue
		}
		if strings.Contains(text, "$") {
			// longest names first so that $AB is not taken for $A
			var names []string
			for n := range cs.Defines {
				names = append(names, n)
			}
			sort.Slice(names, func(i, j int) bool { return len(names[i]) > len(names[j]) })
			for _, n := range names {
				text = strings.ReplaceAll(text, "$"+n, cs.Defines[n])
			}
		}
		var tags []string
		if m := tagRe.FindStringSubmatch(text); m != nil {
			for _, t := range strings.Split(m[1], ",") {
				tags = append(tags, strings.TrimSpace(t))
			}
			text = strings.TrimSpace(text[:len(text)-len(m[0])])
		}
		kw, rest := splitWord(text)
		fail := func(f string, a ...any) error {
			return fmt.Errorf("%s:%d: %s", path, rc.line, fmt.Sprintf(f, a...))
		}
		mk := func(kind, src string) (*Clause, error) {
			e, err := ParseSpec(src)
			if err != nil {
				return nil, fail("%v", err)
			}
			if cur != nil {
				counts[cur.Name+"/"+kind]++
				for _, t := range tags {
					cur.Tags[t] = true
				}
			}
			idx := 0
			if cur != nil {
				idx = counts[cur.Name+"/"+kind]
			}
			return &Clause{Kind: kind, Expr: e, Text: src, Tags: tags, File: path, Line: rc.line, Index: idx}, nil
		}
		switch kw {
		case "package":
			pkg = rest
			cur = nil
		case "func":
			name := pkg + "." + rest
			if c, ok := cs.Funcs[name]; ok {
				cur = c
			} else {
				cur = &FuncContract{Name: name, Pkg: pkg, File: path, Line: rc.line, Nilable: map[string]bool{}, Tags: map[string]bool{}, External: external, Trusted: external}
				cs.Funcs[name] = cur
			}
		case "fnspec":
			name := "$fnspec." + rest
			if c, ok := cs.Funcs[name]; ok {
				cur = c
			} else {
				cur = &FuncContract{Name: name, Pkg: pkg, File: path, Line: rc.line, Nilable: map[string]bool{}, Tags: map[string]bool{}, IsFnSpec: true, Trusted: false}
				cs.Funcs[name] = cur
			}
		case "result", "param", "implements":
			if cur == nil {
				return fail("%s outside func", kw)
			}
			w := strings.Fields(rest)
			switch {
			case kw == "implements" && len(w) >= 1:
				for _, x := range w {
					cur.Implements = append(cur.Implements, strings.Trim(x, ","))
				}
			case kw == "result" && len(w) == 2 && w[0] == "fnspec":
				if cur.ResultSpec == nil {
					cur.ResultSpec = map[int]string{}
				}
				cur.ResultSpec[0] = w[1]
			case kw == "result" && len(w) == 3 && w[1] == "fnspec":
				n, err := strconv.Atoi(w[0])
				if err != nil {
					return fail("result <n> fnspec <name>")
				}
				if cur.ResultSpec == nil {
					cur.ResultSpec = map[int]string{}
				}
				cur.ResultSpec[n] = w[2]
			case kw == "param" && len(w) == 3 && w[1] == "fnspec":
				if cur.ParamSpec == nil {
					cur.ParamSpec = map[string]string{}
				}
				cur.ParamSpec[w[0]] = w[2]
			default:
				return fail("bad %s clause %q", kw, rest)
			}
		case "entry":
			// entry <expr>: assumed when the function is entered, NOT imposed on its callers - what an API entry
			// point (Executor.Run, main) may take for granted about the goroutine that calls it from outside the
			// verified code. Every entry assumption a run relies on is listed in its evidence.
			if cur == nil {
				return fail("%s outside func", kw)
			}
			c, err := mk("requires", rest)
			if err != nil {
				return err
			}
			cur.Entry = append(cur.Entry, c)
		case "requires", "ensures":
			if cur == nil {
				return fail("%s outside func", kw)
			}
			c, err := mk(kw, rest)
			if err != nil {
				return err
			}
			if kw == "requires" {
				cur.Requires = append(cur.Requires, c)
			} else {
				cur.Ensures = append(cur.Ensures, c)
			}
		case "nosite":
			if cur == nil {
				return fail("nosite outside func")
			}
			for _, t := range tags {
				cur.Tags[t] = true
			}
			cur.NoSites = append(cur.NoSites, &Clause{Kind: "nosite", Text: "no call of " + rest, Site: rest, Tags: tags, File: path, Line: rc.line})
		case "init":
			if cur == nil {
				return fail("init outside func")
			}
			gs0, err := parseGhostSet(rest)
			if err != nil {
				return fail("%v", err)
			}
			cur.Inits = append(cur.Inits, &Clause{Kind: "init", Text: rest, Tags: tags, File: path, Line: rc.line, Ghost: gs0})
		case "updates":
			if cur == nil {
				return fail("updates outside func")
			}
			gs, err := parseGhostSet(rest)
			if err != nil {
				return fail("%v", err)
			}
			counts[cur.Name+"/updates"]++
			for _, t := range tags {
				cur.Tags[t] = true
			}
			cur.Updates = append(cur.Updates, &Clause{Kind: "updates", Text: rest, Tags: tags, File: path, Line: rc.line, Ghost: gs, Index: counts[cur.Name+"/updates"]})
		case "modifies":
			if cur == nil {
				return fail("modifies outside func")
			}
			cur.HasMod = true
			for _, m := range strings.Split(rest, ",") {
				if m = strings.TrimSpace(m); m != "" {
					cur.Modifies = append(cur.Modifies, m)
				}
			}
		case "preserves":
			if cur == nil {
				return fail("preserves outside func")
			}
			cur.Preserves = append(cur.Preserves, strings.Fields(strings.ReplaceAll(rest, ",", " "))...)
		case "typeinv":
			// typeinv <type> : <expr over self>
			i := strings.Index(rest, ":")
			if i < 0 {
				return fail("typeinv <type> : <expr>")
			}
			save := cur
			cur = nil
			c, err := mk("typeinv", strings.TrimSpace(rest[i+1:]))
			cur = save
			if err != nil {
				return err
			}
			c.Site = strings.TrimSpace(rest[:i])
			c.Detail = pkg
			cs.TypeInvs = append(cs.TypeInvs, c)
		case "pure":
			if cur == nil {
				return fail("pure outside func")
			}
			cur.Pure = true
			cur.HasMod = true
			if rest == "allocates" {
				cur.Allocates = true
			}
		case "blocks":
			if cur == nil {
				return fail("blocks outside func")
			}
			cur.Blocks = true
		case "deterministic":
			if cur == nil {
				return fail("deterministic outside func")
			}
			cur.Deterministic = true
		case "trusted":
			if cur == nil {
				return fail("trusted outside func")
			}
			if strings.TrimSpace(rest) == "frame" {
				// "trusted frame": the body IS verified against the requires / ensures / site clauses, but its
				// modifies frame is assumed, not checked (it calls into libraries that have no frame of their own);
				// listed among the assumptions of every run that uses it
				cur.TrustedFrame = true
			} else {
				cur.Trusted = true
			}
		case "nopanic":
			if cur == nil {
				return fail("nopanic outside func")
			}
			cur.NoPanic = true
			cur.SweepTags = append(cur.SweepTags, tags...)
			for _, t := range tags {
				cur.Tags[t] = true
			}
		case "spawns":
			if cur == nil {
				return fail("spawns outside func")
			}
			cur.Spawns = true
		case "nosafety":
			if cur == nil {
				return fail("nosafety outside func")
			}
			cur.NoSafety = true
		case "allow":
			if cur == nil {
				return fail("allow outside func")
			}
			if rest == "go" {
				cur.AllowGo = true
			}
		case "deferrule":
			if cur == nil {
				return fail("deferrule outside func")
			}
			cur.DeferRule = rest
		case "sweep":
			if cur == nil {
				return fail("sweep outside func")
			}
			cur.Sweep = true
			cur.SweepTags = append(cur.SweepTags, tags...)
			for _, t := range tags {
				cur.Tags[t] = true
			}
		case "nilable":
			if cur == nil {
				return fail("nilable outside func")
			}
			for _, n := range strings.Fields(strings.ReplaceAll(rest, ",", " ")) {
				cur.Nilable[n] = true
			}
		case "loop":
			if cur == nil {
				return fail("loop outside func")
			}
			nstr, r2 := splitWord(rest)
			n, err := strconv.Atoi(nstr)
			if err != nil {
				return fail("loop ordinal: %v", err)
			}
			k2, r3 := splitWord(r2)
			switch k2 {
			case "invariant":
				c, err := mk("invariant", r3)
				if err != nil {
					return err
				}
				c.Loop = n
				cur.Invs = append(cur.Invs, c)
			case "decreases":
				c, err := mk("decreases", r3)
				if err != nil {
					return err
				}
				c.Loop = n
				cur.Decreases = append(cur.Decreases, c)
			default:
				return fail("unknown loop clause %q", k2)
			}
		case "site":
			if cur == nil {
				return fail("site outside func")
			}
			target, r2 := splitWord(rest)
			n := 0
			if i := strings.LastIndex(target, "#"); i >= 0 {
				var err error
				n, err = strconv.Atoi(target[i+1:])
				if err != nil {
					return fail("site ordinal: %v", err)
				}
				target = target[:i]
			}
			k2, r3 := splitWord(r2)
			switch k2 {
			case "fnspec":
			name := "$fnspec." + rest
			if c, ok := cs.Funcs[name]; ok {
				cur = c
			} else {
				cur = &FuncContract{Name: name, Pkg: pkg, File: path, Line: rc.line, Nilable: map[string]bool{}, Tags: map[string]bool{}, IsFnSpec: true, Trusted: false}
				cs.Funcs[name] = cur
			}
		case "result", "param", "implements":
			if cur == nil {
				return fail("%s outside func", kw)
			}
			w := strings.Fields(rest)
			switch {
			case kw == "implements" && len(w) >= 1:
				for _, x := range w {
					cur.Implements = append(cur.Implements, strings.Trim(x, ","))
				}
			case kw == "result" && len(w) == 2 && w[0] == "fnspec":
				if cur.ResultSpec == nil {
					cur.ResultSpec = map[int]string{}
				}
				cur.ResultSpec[0] = w[1]
			case kw == "result" && len(w) == 3 && w[1] == "fnspec":
				n, err := strconv.Atoi(w[0])
				if err != nil {
					return fail("result <n> fnspec <name>")
				}
				if cur.ResultSpec == nil {
					cur.ResultSpec = map[int]string{}
				}
				cur.ResultSpec[n] = w[2]
			case kw == "param" && len(w) == 3 && w[1] == "fnspec":
				if cur.ParamSpec == nil {
					cur.ParamSpec = map[string]string{}
				}
				cur.ParamSpec[w[0]] = w[2]
			default:
				return fail("bad %s clause %q", kw, rest)
			}
		case "requires", "ensures":
				c, err := mk("site-"+k2, r3)
				if err != nil {
					return err
				}
				c.Site, c.SiteN = target, n
				cur.Sites = append(cur.Sites, c)
			case "ghost":
				gs, err := parseGhostSet(r3)
				if err != nil {
					return fail("%v", err)
				}
				counts[cur.Name+"/site-ghost"]++
				c := &Clause{Kind: "site-ghost", Text: r3, Tags: tags, File: path, Line: rc.line, Site: target, SiteN: n, Ghost: gs, Index: counts[cur.Name+"/site-ghost"]}
				cur.Sites = append(cur.Sites, c)
			default:
				return fail("unknown site clause %q", k2)
			}
		case "ghost":
			k2, r2 := splitWord(rest)
			gd, err := parseGhostDecl(k2, r2)
			if err != nil {
				return fail("%v", err)
			}
			gd.Pkg, gd.File, gd.Line = pkg, path, rc.line
			if old, ok := cs.Ghosts[gd.Name]; ok {
				return fail("ghost %s already declared at %s:%d", gd.Name, old.File, old.Line)
			}
			cs.Ghosts[gd.Name] = gd
		case "guarded_by":
			w := strings.Fields(rest)
			if len(w) < 2 || (len(w) > 2 && w[2] != "except") {
				return fail("guarded_by <Type.field> <Type.mutexField> [except <func> ...]")
			}
			g := &Guarded{Field: pkg + "." + w[0], Mutex: pkg + "." + w[1], Tags: tags, File: path, Line: rc.line}
			if len(w) > 3 {
				g.Except = w[3:]
			}
			cs.Guarded = append(cs.Guarded, g)
		case "spawned_writes":
			_, tail, _ := strings.Cut(rest, ":")
			r := &CallersRule{Tags: tags, File: path, Line: rc.line}
			for _, x := range strings.Fields(tail) {
				if x != "except" {
					r.Allowed = append(r.Allowed, x)
				}
			}
			cs.SpawnedWrites = append(cs.SpawnedWrites, r)
		case "sweep_methods":
			if len(strings.Fields(rest)) == 0 {
				return fail("sweep_methods <method name> ...")
			}
			cs.SweepMethods = append(cs.SweepMethods, &CallersRule{Callees: strings.Fields(rest), Tags: tags, File: path, Line: rc.line})
		case "impl_methods":
			if len(strings.Fields(rest)) == 0 {
				return fail("impl_methods (Iface).Method ...")
			}
			cs.ImplMethods = append(cs.ImplMethods, &CallersRule{Callees: strings.Fields(rest), Allowed: []string{pkg}, Tags: tags, File: path, Line: rc.line})
		case "map_ranges":
			_, tail, ok := strings.Cut(rest, ":")
			if !ok || len(strings.Fields(tail)) == 0 {
				return fail("map_ranges : <func> ...")
			}
			cs.MapRanges = append(cs.MapRanges, &CallersRule{Allowed: strings.Fields(tail), Tags: tags, File: path, Line: rc.line})
		case "callers":
			head, tail, ok := strings.Cut(rest, " : ")
			if !ok || len(strings.Fields(head)) == 0 || len(strings.Fields(tail)) == 0 {
				return fail("callers <callee> ... : <func> ...")
			}
			cr := &CallersRule{Callees: strings.Fields(head), Allowed: strings.Fields(tail), Tags: tags, File: path, Line: rc.line}
			if cr.Callees[0] == "maybe-absent" {
				// "callers maybe-absent f g : funcs": a rule about functions the repository need not call at all
				cr.AbsentOK, cr.Callees = true, cr.Callees[1:]
				if len(cr.Callees) == 0 {
					return fail("callers maybe-absent <callee> ... : <func> ...")
				}
			}
			cs.Callers = append(cs.Callers, cr)
		case "state_fields":
			// state_fields T: f1 f2 ... [except func ...]
			head, tail, ok := strings.Cut(rest, ":")
			if !ok || strings.TrimSpace(head) == "" {
				return fail("state_fields <Type>: <field> ... [except <func> ...]")
			}
			sf := &StateFields{Type: pkg + "." + strings.TrimSpace(head), Fields: map[string]bool{}, Tags: tags, File: path, Line: rc.line}
			if strings.TrimSpace(head) == "globals" {
				sf.Type, sf.Globals = "globals", true
			}
			exc := false
			for _, x := range strings.Fields(tail) {
				switch {
				case x == "except":
					exc = true
				case exc:
					sf.Except = append(sf.Except, x)
				default:
					sf.Fields[x] = true
				}
			}
			cs.StateFields = append(cs.StateFields, sf)
		case "nonnil":
			for _, n := range strings.Fields(strings.ReplaceAll(rest, ",", " ")) {
				if strings.HasPrefix(n, "elem:") || strings.Contains(n, "/") {
					cs.NonNil[n] = true
				} else {
					cs.NonNil[pkg+"."+n] = true
				}
			}
		case "axiom":
			save := cur
			cur = nil
			c, err := mk("axiom", rest)
			cur = save
			if err != nil {
				return err
			}
			cs.Axioms = append(cs.Axioms, c)
		case "fields_copied":
			fc := &FieldsCopied{Func: pkg + "." + rest, Tags: tags, Pkg: pkg, File: path, Line: rc.line, Skip: map[string]string{}}
			cs.FCopied = append(cs.FCopied, fc)
		case "fields_decoded":
			// fields_decoded (*T).UnmarshalYAML <local>
			fnm, loc := splitWord(rest)
			if fnm == "" || strings.TrimSpace(loc) == "" {
				return fail("fields_decoded <func> <local struct variable>")
			}
			fc := &FieldsCopied{Func: pkg + "." + fnm, Tags: tags, Pkg: pkg, File: path, Line: rc.line, Skip: map[string]string{}, Local: strings.TrimSpace(loc)}
			cs.FCopied = append(cs.FCopied, fc)
		case "skipfield":
			if len(cs.FCopied) == 0 {
				return fail("skipfield without fields_copied")
			}
			f, why := splitWord(rest)
			cs.FCopied[len(cs.FCopied)-1].Skip[f] = why
		case "witness":
			cs.Witness = append(cs.Witness, rest)
		default:
			return fail("unknown clause keyword %q", kw)
		}
		if cur != nil && kw != "func" && kw != "fnspec" && kw != "axiom" && kw != "typeinv" {
			for _, t := range tags {
				cur.Tags[t] = true
			}
		}
	}
	return nil
}

func splitWord(s string) (string, string) {
	s = strings.TrimSpace(s)
	if i := strings.IndexAny(s, " \t"); i >= 0 {
		return s[:i], strings.TrimSpace(s[i+1:])
	}
	return s, ""
}

// parseGhostDecl parses "fact name(a T, b U) [monotone]", "func name(a T) R", "var name T".
func parseGhostDecl(kind, rest string) (*GhostDecl, error) {
	gd := &GhostDecl{Kind: kind}
	switch kind {
	case "fact", "func", "table":
		i := strings.Index(rest, "(")
		j := strings.LastIndex(rest, ")")
		if i < 0 || j < i {
			return nil, fmt.Errorf("bad ghost declaration %q", rest)
		}
		gd.Name = strings.TrimSpace(rest[:i])
		params := strings.TrimSpace(rest[i+1 : j])
		if params != "" {
			for _, p := range strings.Split(params, ",") {
				n, t := splitWord(p)
				if t == "" {
					t = "int"
				}
				gd.Params = append(gd.Params, QVar{n, t})
			}
		}
		tail := strings.TrimSpace(rest[j+1:])
		if kind == "table" {
			if strings.HasSuffix(tail, " local") || tail == "local" {
				gd.Local = true
				tail = strings.TrimSpace(strings.TrimSuffix(tail, "local"))
			}
			gd.Result = tail
			if gd.Result == "" {
				gd.Result = "int"
			}
		} else if kind == "fact" {
			gd.Result = "bool"
			gd.Monotone = true
			if tail != "" && tail != "monotone" {
				return nil, fmt.Errorf("bad fact suffix %q", tail)
			}
		} else {
			gd.Result = tail
			if gd.Result == "" {
				gd.Result = "int"
			}
		}
	case "var":
		n, t := splitWord(rest)
		if strings.HasSuffix(t, " scratch") {
			gd.Scratch = true
			t = strings.TrimSpace(strings.TrimSuffix(t, "scratch"))
		}
		gd.Name, gd.Result = n, t
		if t == "" {
			gd.Result = "int"
		}
	default:
		return nil, fmt.Errorf("unknown ghost kind %q", kind)
	}
	return gd, nil
}

// parseGhostSet parses "set f(a,b) [if c]" or "x := e [if c]".
func parseGhostSet(s string) (*GhostSet, error) {
	gs := &GhostSet{}
	if i := strings.LastIndex(s, " if "); i >= 0 {
		c, err := ParseSpec(s[i+4:])
		if err != nil {
			return nil, err
		}
		gs.Cond = c
		s = strings.TrimSpace(s[:i])
	}
	if strings.HasPrefix(s, "set ") {
		e, err := ParseSpec(strings.TrimSpace(s[4:]))
		if err != nil {
			return nil, err
		}
		c, ok := e.(*ECall)
		if !ok {
			return nil, fmt.Errorf("ghost set needs fact(args): %q", s)
		}
		gs.Name, gs.Args = c.Fun, c.Args
		return gs, nil
	}
	if i := strings.Index(s, ":="); i >= 0 {
		lhs := strings.TrimSpace(s[:i])
		v, err := ParseSpec(strings.TrimSpace(s[i+2:]))
		if err != nil {
			return nil, err
		}
		gs.Val = v
		if strings.Contains(lhs, "(") {
			e, err := ParseSpec(lhs)
			if err != nil {
				return nil, err
			}
			c, ok := e.(*ECall)
			if !ok {
				return nil, fmt.Errorf("bad table update %q", s)
			}
			gs.Name, gs.Args = c.Fun, c.Args
			return gs, nil
		}
		gs.Name = lhs
		return gs, nil
	}
	return nil, fmt.Errorf("bad ghost statement %q", s)
}
