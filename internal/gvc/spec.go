package gvc

import (
	"fmt"
	"strconv"
	"strings"
	"unicode"
)

// ---- specification expression AST -------------------------------------------------

type Expr interface{ String() string }

type (
	EIdent struct{ Name string }
	EInt   struct{ V string }
	EStr   struct{ V string }
	EBool  struct{ V bool }
	ENil   struct{}
	EUnary struct {
		Op string
		X  Expr
	}
	EBinary struct {
		Op   string
		X, Y Expr
	}
	ECall struct {
		Fun  string
		Args []Expr
	}
	EField struct {
		X    Expr
		Name string
	}
	EIndex struct {
		X, I Expr
	}
	EQuant struct {
		Forall   bool
		Vars     []QVar
		Body     Expr
		Triggers [][]Expr // explicit instantiation patterns: {a, b} {c}
	}
	ECond struct{ C, A, B Expr }
	EType struct{ Text string } // type(T)
)

type QVar struct{ Name, Type string }

func (e *EIdent) String() string  { return e.Name }
func (e *EInt) String() string    { return e.V }
func (e *EStr) String() string    { return strconv.Quote(e.V) }
func (e *EBool) String() string   { return fmt.Sprint(e.V) }
func (e *ENil) String() string    { return "nil" }
func (e *EUnary) String() string  { return e.Op + e.X.String() }
func (e *EBinary) String() string { return "(" + e.X.String() + " " + e.Op + " " + e.Y.String() + ")" }
func (e *ECall) String() string {
	var a []string
	for _, x := range e.Args {
		a = append(a, x.String())
	}
	return e.Fun + "(" + strings.Join(a, ", ") + ")"
}
func (e *EField) String() string { return e.X.String() + "." + e.Name }
func (e *EIndex) String() string { return e.X.String() + "[" + e.I.String() + "]" }
func (e *EQuant) String() string {
	q := "exists"
	if e.Forall {
		q = "forall"
	}
	var vs []string
	for _, v := range e.Vars {
		vs = append(vs, v.Name+" "+v.Type)
	}
	return "(" + q + " " + strings.Join(vs, ", ") + " :: " + e.Body.String() + ")"
}
func (e *ECond) String() string { return "(" + e.C.String() + " ? " + e.A.String() + " : " + e.B.String() + ")" }
func (e *EType) String() string { return "type(" + e.Text + ")" }

// ---- lexer ----------------------------------------------------------------------

type tok struct {
	k string // "id", "int", "str", "op", "eof"
	s string
}

func lexSpec(src string) ([]tok, error) {
	var out []tok
	i := 0
	ops3 := []string{"<==>", "==>", "::", "==", "!=", "<=", ">=", "&&", "||"}
	for i < len(src) {
		c := src[i]
		if c == ' ' || c == '\t' {
			i++
			continue
		}
		if unicode.IsLetter(rune(c)) || c == '_' || c == '$' {
			j := i + 1
			for j < len(src) && (unicode.IsLetter(rune(src[j])) || unicode.IsDigit(rune(src[j])) || src[j] == '_' || src[j] == '$') {
				j++
			}
			out = append(out, tok{"id", src[i:j]})
			i = j
			continue
		}
		if unicode.IsDigit(rune(c)) {
			j := i + 1
			for j < len(src) && unicode.IsDigit(rune(src[j])) {
				j++
			}
			out = append(out, tok{"int", src[i:j]})
			i = j
			continue
		}
		if c == '"' {
			j := i + 1
			for j < len(src) && src[j] != '"' {
				if src[j] == '\\' {
					j++
				}
				j++
			}
			if j >= len(src) {
				return nil, fmt.Errorf("unterminated string in %q", src)
			}
			s, err := strconv.Unquote(src[i : j+1])
			if err != nil {
				return nil, fmt.Errorf("bad string literal in %q: %v", src, err)
			}
			out = append(out, tok{"str", s})
			i = j + 1
			continue
		}
		matched := false
		for _, op := range ops3 {
			if strings.HasPrefix(src[i:], op) {
				out = append(out, tok{"op", op})
				i += len(op)
				matched = true
				break
			}
		}
		if matched {
			continue
		}
		if strings.ContainsRune("()[],.+-*/%!<>?:#{}", rune(c)) {
			out = append(out, tok{"op", string(c)})
			i++
			continue
		}
		return nil, fmt.Errorf("unexpected character %q in %q", c, src)
	}
	out = append(out, tok{"eof", ""})
	return out, nil
}

// ---- parser ---------------------------------------------------------------------

type specParser struct {
	toks []tok
	p    int
	src  string
}

func ParseSpec(src string) (e Expr, err error) {
	toks, err := lexSpec(src)
	if err != nil {
		return nil, err
	}
	sp := &specParser{toks: toks, src: src}
	defer func() {
		if r := recover(); r != nil {
			if pe, ok := r.(parseErr); ok {
				err = fmt.Errorf("%s in %q", string(pe), src)
				return
			}
			panic(r)
		}
	}()
	e = sp.expr(0)
	if sp.peek().k != "eof" {
		sp.fail("unexpected %q", sp.peek().s)
	}
	return e, nil
}

type parseErr string

func (sp *specParser) fail(f string, a ...any) { panic(parseErr(fmt.Sprintf(f, a...))) }
func (sp *specParser) peek() tok               { return sp.toks[sp.p] }
func (sp *specParser) next() tok               { t := sp.toks[sp.p]; sp.p++; return t }
func (sp *specParser) isOp(s string) bool      { t := sp.peek(); return t.k == "op" && t.s == s }
func (sp *specParser) expect(s string) {
	if !sp.isOp(s) {
		sp.fail("expected %q, found %q", s, sp.peek().s)
	}
	sp.p++
}

var binPrec = map[string]int{
	"<==>": 1, "==>": 2, "||": 4, "&&": 5,
	"==": 6, "!=": 6, "<": 6, "<=": 6, ">": 6, ">=": 6, "in": 6,
	"+": 7, "-": 7, "*": 8, "/": 8, "%": 8,
}

func (sp *specParser) expr(minPrec int) Expr {
	lhs := sp.unary()
	for {
		t := sp.peek()
		var op string
		if t.k == "op" {
			op = t.s
		} else if t.k == "id" && t.s == "in" {
			op = "in"
		} else {
			break
		}
		if op == "?" && minPrec <= 3 {
			sp.p++
			a := sp.expr(4)
			sp.expect(":")
			b := sp.expr(3)
			lhs = &ECond{lhs, a, b}
			continue
		}
		prec, ok := binPrec[op]
		if !ok || prec < minPrec {
			break
		}
		sp.p++
		var rhs Expr
		if op == "==>" {
			rhs = sp.expr(prec) // right assoc
		} else {
			rhs = sp.expr(prec + 1)
		}
		lhs = &EBinary{op, lhs, rhs}
	}
	return lhs
}

func (sp *specParser) unary() Expr {
	if sp.isOp("!") {
		sp.p++
		return &EUnary{"!", sp.unary()}
	}
	if sp.isOp("-") {
		sp.p++
		return &EUnary{"-", sp.unary()}
	}
	return sp.postfix(sp.primary())
}

func (sp *specParser) postfix(x Expr) Expr {
	for {
		switch {
		case sp.isOp("."):
			sp.p++
			t := sp.next()
			if t.k != "id" && t.k != "int" {
				sp.fail("expected field name after '.'")
			}
			x = &EField{x, t.s}
		case sp.isOp("["):
			sp.p++
			i := sp.expr(0)
			sp.expect("]")
			x = &EIndex{x, i}
		default:
			return x
		}
	}
}

func (sp *specParser) primary() Expr {
	t := sp.next()
	switch t.k {
	case "int":
		return &EInt{t.s}
	case "str":
		return &EStr{t.s}
	case "id":
		switch t.s {
		case "true":
			return &EBool{true}
		case "false":
			return &EBool{false}
		case "nil":
			return &ENil{}
		case "forall", "exists":
			q := &EQuant{Forall: t.s == "forall"}
			for {
				n := sp.next()
				if n.k != "id" {
					sp.fail("expected bound variable")
				}
				ty := "int"
				if sp.peek().k == "id" || sp.isOp("*") || sp.isOp("[") {
					ty = sp.typeText([]string{",", "::", "{"})
				}
				q.Vars = append(q.Vars, QVar{n.s, ty})
				if sp.isOp(",") {
					sp.p++
					continue
				}
				break
			}
			for sp.isOp("{") {
				sp.p++
				var grp []Expr
				for {
					grp = append(grp, sp.expr(0))
					if sp.isOp(",") {
						sp.p++
						continue
					}
					break
				}
				sp.expect("}")
				q.Triggers = append(q.Triggers, grp)
			}
			sp.expect("::")
			q.Body = sp.expr(0)
			// untyped leading vars take the type of the following typed var (Go style)
			return q
		case "type":
			if sp.isOp("(") {
				sp.p++
				txt := sp.typeText([]string{")"})
				sp.expect(")")
				return &EType{txt}
			}
		}
		if sp.isOp("(") {
			sp.p++
			c := &ECall{Fun: t.s}
			if !sp.isOp(")") {
				for {
					c.Args = append(c.Args, sp.expr(0))
					if sp.isOp(",") {
						sp.p++
						continue
					}
					break
				}
			}
			sp.expect(")")
			return c
		}
		return &EIdent{t.s}
	case "op":
		if t.s == "(" {
			e := sp.expr(0)
			sp.expect(")")
			return e
		}
	}
	sp.fail("unexpected %q", t.s)
	return nil
}

// typeText consumes tokens forming a Go type until one of the stop operators (at depth 0).
func (sp *specParser) typeText(stops []string) string {
	var b strings.Builder
	depth := 0
	for {
		t := sp.peek()
		if t.k == "eof" {
			break
		}
		if t.k == "op" && depth == 0 {
			stop := false
			for _, s := range stops {
				if t.s == s {
					stop = true
				}
			}
			if stop {
				break
			}
		}
		if t.k == "op" && (t.s == "(" || t.s == "[") {
			depth++
		}
		if t.k == "op" && (t.s == ")" || t.s == "]") {
			depth--
		}
		b.WriteString(t.s)
		sp.p++
	}
	return b.String()
}
