package gvc

import (
	"fmt"
	"strings"
)

// keyMeta describes one component of the symbolic state (a heap array, a ghost table, a ghost variable).
type keyMeta struct {
	Sort  string // full SMT sort of the component
	Mono  bool   // monotone ghost fact: havoc keeps every true entry true
	Arity int    // number of Int indices for ghost facts
	Ghost bool
	Local bool // thread-local ghost variable: changed only by contracts that name it
	Scratch bool // observation variable private to one function invocation: no call can change it
}

type stEdge struct {
	cond string
	st   *state
}

// state is a lazily materialised map from component key to SMT term.
type state struct {
	vc        *VC
	id        int
	vals      map[string]string
	parents   []stEdge // merged state
	prev      *state   // derived state
	havocHeap bool     // all heap components are fresh relative to prev
	havocGhst bool     // all non-local ghost components are weakened/fresh relative to prev
	havocKeys map[string]bool
	havocPats []string
	keepPats  []string // not havoced by havocHeap
	havocIscopy bool
	havocLocal bool // thread-local ghost variables too (unknown repository code)
	guard     string // the havoc happened only if guard (else equal to prev); "" = unconditional
}

func (vc *VC) newState() *state {
	vc.stateSeq++
	return &state{vc: vc, id: vc.stateSeq, vals: map[string]string{}}
}

func (s *state) derive() *state {
	n := s.vc.newState()
	n.prev = s
	return n
}

// set records the new value of a component. Long terms (nested stores) are given a name so that later terms
// refer to them by name instead of embedding their text (keeps queries linear in the size of the function).
func (s *state) set(key, term string) {
	if len(term) > 160 {
		if meta, ok := s.vc.keyMetas[key]; ok {
			n := s.vc.freshConst("s!"+key, meta.Sort)
			s.vc.assert(fmt.Sprintf("(= %s %s)", n, term))
			term = n
		}
	}
	s.vals[key] = term
}

func isHeapKey(key string) bool { return !strings.HasPrefix(key, "G:") }

func (s *state) get(key string) string {
	if t, ok := s.vals[key]; ok {
		return t
	}
	vc := s.vc
	meta := vc.keyMeta(key)
	var res string
	switch {
	case len(s.parents) > 0:
		terms := make([]string, len(s.parents))
		same := true
		for i, p := range s.parents {
			terms[i] = p.st.get(key)
			if terms[i] != terms[0] {
				same = false
			}
		}
		if same {
			res = terms[0]
		} else {
			res = vc.freshConst("m!"+key, meta.Sort)
			for i, p := range s.parents {
				vc.assert(fmt.Sprintf("(=> %s (= %s %s))", p.cond, res, terms[i]))
			}
		}
	case s.prev != nil:
		hav := s.havocs(key, meta)
		if !hav {
			res = s.prev.get(key)
		} else {
			// skip intermediate states that also (unconditionally) havoc this key and whose version nobody read:
			// weakening is transitive, and a fresh value has no relation to an unread fresh value
			base := s.prev
			if s.guard == "" {
				for base.prev != nil && len(base.parents) == 0 && base.guard == "" && base.havocs(key, meta) {
					if _, read := base.vals[key]; read {
						break
					}
					base = base.prev
				}
			}
			var old string
			if meta.Mono || key == "G:$alloc" || s.guard != "" {
				old = base.get(key)
			}
			res = vc.freshConst("h!"+key, meta.Sort)
			if meta.Mono {
				vc.assert(vc.monoAxiom(old, res, meta.Arity))
			}
			if key == "G:$alloc" {
				vc.assert(fmt.Sprintf("(>= %s %s)", res, old))
			}
			if s.guard != "" {
				vc.assert(fmt.Sprintf("(=> (not %s) (= %s %s))", s.guard, res, old))
			}
			if prs := vc.privateRefs[key]; len(prs) > 0 && isHeapKey(key) {
				if old == "" {
					old = base.get(key)
				}
				for _, r := range prs {
					vc.assert(fmt.Sprintf("(= (select %s %s) (select %s %s))", res, r, old, r))
				}
			}
		}
	default:
		res = vc.freshConst("b!"+key, meta.Sort)
		if key == "G:$alloc" {
			vc.assert(fmt.Sprintf("(>= %s 0)", res))
		}
	}
	s.vals[key] = res
	return res
}

// monoAxiom: every entry true in old is true in new.
func (vc *VC) monoAxiom(old, nw string, arity int) string {
	if arity == 0 {
		return fmt.Sprintf("(=> %s %s)", old, nw)
	}
	var bs []string
	so, sn := old, nw
	for i := 0; i < arity; i++ {
		v := fmt.Sprintf("mq%d", i)
		bs = append(bs, fmt.Sprintf("(%s Int)", v))
		so = fmt.Sprintf("(select %s %s)", so, v)
		sn = fmt.Sprintf("(select %s %s)", sn, v)
	}
	return fmt.Sprintf("(forall (%s) (! (=> %s %s) :pattern (%s)))", strings.Join(bs, " "), so, sn, sn)
}

// merge builds the state at a join point.
func (vc *VC) mergeStates(edges []stEdge) *state {
	if len(edges) == 1 {
		return edges[0].st
	}
	same := true
	for _, e := range edges {
		if e.st != edges[0].st {
			same = false
		}
	}
	if same {
		return edges[0].st
	}
	n := vc.newState()
	n.parents = edges
	return n
}

func (s *state) collectKeys(out map[string]bool, seen map[*state]bool) {
	if seen[s] {
		return
	}
	seen[s] = true
	for k := range s.vals {
		out[k] = true
	}
	for _, p := range s.parents {
		p.st.collectKeys(out, seen)
	}
	if s.prev != nil {
		s.prev.collectKeys(out, seen)
	}
}

// keepMatches: "preserves" patterns: exact key body, suffix match, or prefix match when the pattern ends in '*'.
func keepMatches(key, pat string) bool {
	if len(key) < 2 {
		return false
	}
	body := key[2:]
	if strings.HasPrefix(pat, "elem:") {
		return key[0] == 'E' && (body == pat[5:] || hasSuffixAt(body, pat[5:]))
	}
	if strings.HasSuffix(pat, "*") {
		p := pat[:len(pat)-1]
		return key[0] == 'F' && (strings.HasPrefix(body, p) || strings.Contains(body, "/"+p) )
	}
	return keyMatches(key, pat)
}

// havocs reports whether this derived state forgets (or weakens) component key relative to prev.
func (s *state) havocs(key string, meta keyMeta) bool {
	if meta.Scratch || key == "G:held" {
		// scratch: only an explicit assignment (e.g. inside a loop being cut) changes it.
		// held (lock set): code outside the contracts is assumed to return with the locks it was called with.
		return s.havocKeys[key]
	}
	hav := s.havocKeys[key] || (s.havocHeap && isHeapKey(key)) || (s.havocGhst && meta.Ghost && (!meta.Local || s.havocLocal) && key != "G:$alloc")
	if hav && s.havocHeap && isHeapKey(key) && !s.havocKeys[key] {
		for _, p := range s.keepPats {
			if keepMatches(key, p) {
				hav = false
			}
		}
	}
	if s.havocIscopy && strings.HasPrefix(key, "G:iscopy$") {
		hav = true
	}
	for _, p := range s.havocPats {
		if keyMatches(key, p) {
			hav = true
		}
	}
	return hav
}
