package gvc

import (
	"fmt"
	"go/constant"
	"go/token"
	"go/types"
	"sort"
	"strings"

	"golang.org/x/tools/go/ssa"
)

func sortStrings(s []string) { sort.Strings(s) }

// Obligation is one proof goal: under the constraint prefix cons[:Pos] and reachability Reach, Goal holds.
type Obligation struct {
	Name    string
	Func    string
	Kind    string
	Tags    []string
	Pos     int
	Reach   string
	Goal    string
	Cover   bool // goal is a satisfiability check (vacuity guard): expected sat
	Text    string
	File    string
	Line    int
	SrcPos  string
	Block   int
	Detail  map[string]string
	Clause  *Clause
	Env     *specEnv
	// results
	Status  string // discharged, failed, unknown, cover-ok, cover-vacuous
	Solver  string
	Ms      int64
	Model   map[string]string
	Raw     string
	Known   string
	SMTSize int
}

type addr struct {
	kind string // "field", "elem", "cell"
	key  string
	base string // object ref (field, cell) or array id (elem)
	idx  string // elem index
	typ  types.Type
}

type loopInfo struct {
	header  *ssa.BasicBlock
	ordinal int
	blocks  map[*ssa.BasicBlock]bool
	backs   []*ssa.BasicBlock
	rangeIx *ssa.Phi // rangeindex phi, if any
	entrySt *state
	headSt  *state
	phiVals map[*ssa.Phi]string
}

type VC struct {
	P    *Program
	C    *Contracts
	fn   *ssa.Function
	fc   *FuncContract
	Name string

	decls    []string
	declSet  map[string]bool
	cons     []string
	Obls     []*Obligation
	vals     map[ssa.Value]string
	addrs    map[ssa.Value]*addr
	tuples   map[ssa.Value][]string
	funcIDs  map[string]int
	usedContracts map[string]bool
	lastEnv  *specEnv
	ensuresSeen map[*Clause]int
	objModCache []objMod
	localRefs map[string][]localRef
	rebinding bool
	privateRefs map[string][]string // heap key -> refs of locals that never escape
	localNames  map[string]bool     // names of the function's local variables (static scan, see hasLocalNamed)
	ownNames  map[string]bool
	inlStack  []*inlFrame
	inlSeq    int
	inlPrefix string
	inlMemo   map[*ssa.Function]bool
	inTypeInv bool
	globals  []string
	deferInfo map[*ssa.Defer]*callInfo
	reach    map[*ssa.BasicBlock]string
	endState map[*ssa.BasicBlock]*state
	entry    *state
	st       *state
	cur      *ssa.BasicBlock
	keyMetas map[string]keyMeta
	strLits  map[string]int
	strList  []string
	typeIDs  map[string]int
	typeList []types.Type
	seq      int
	stateSeq int
	counts   map[string]int
	Abstract map[string]int
	loops    map[*ssa.BasicBlock]*loopInfo
	loopList []*loopInfo
	backEdge map[[2]*ssa.BasicBlock]bool
	shapes map[*ssa.Function][]*loopShape
	sharedMemo map[*ssa.Alloc][]*ssa.MakeClosure
	sharedAllocs []*ssa.Alloc
	staticLoops []*staticLoop // every loop of the function and of the helpers verified inline, in static order
	callOrd  map[string]int
	staticOrd map[ordKey]int
	params   map[string]sval
	closures []*closureRec
	deferred []*deferRec
	retBlocks []string
	siteUsed map[*Clause]int
	Errors   []string
	allTags  []string
	mono     bool
	entryAlloc string
}

type localRef struct {
	v    ssa.Value
	b    *ssa.BasicBlock
	cell bool
}

type closureRec struct {
	val  string
	fn   *ssa.Function
	mc   *ssa.MakeClosure
	vals []string
}

type deferRec struct {
	instr *ssa.Defer
	block *ssa.BasicBlock
	inLoop bool
}

func NewVC(p *Program, c *Contracts, fn *ssa.Function, fc *FuncContract) *VC {
	vc := &VC{P: p, C: c, fn: fn, fc: fc, Name: CanonName(fn),
		declSet: map[string]bool{}, vals: map[ssa.Value]string{}, addrs: map[ssa.Value]*addr{},
		reach: map[*ssa.BasicBlock]string{}, endState: map[*ssa.BasicBlock]*state{},
		keyMetas: map[string]keyMeta{}, strLits: map[string]int{"": 0}, strList: []string{""},
		typeIDs: map[string]int{}, counts: map[string]int{}, Abstract: map[string]int{},
		loops: map[*ssa.BasicBlock]*loopInfo{}, backEdge: map[[2]*ssa.BasicBlock]bool{}, callOrd: map[string]int{},
		params: map[string]sval{}, siteUsed: map[*Clause]int{}, tuples: map[ssa.Value][]string{}, funcIDs: map[string]int{}, usedContracts: map[string]bool{}, ensuresSeen: map[*Clause]int{}, localRefs: map[string][]localRef{}, inlMemo: map[*ssa.Function]bool{}, privateRefs: map[string][]string{}, deferInfo: map[*ssa.Defer]*callInfo{}}
	return vc
}

// ---- SMT helpers ------------------------------------------------------------------

func q(name string) string {
	simple := true
	for _, r := range name {
		if !(r >= 'a' && r <= 'z' || r >= 'A' && r <= 'Z' || r >= '0' && r <= '9' || r == '_' || r == '!' || r == '$' || r == '.') {
			simple = false
			break
		}
	}
	if simple && name != "" && !(name[0] >= '0' && name[0] <= '9') {
		return name
	}
	name = strings.ReplaceAll(name, "|", "!")
	name = strings.ReplaceAll(name, "\\", "!")
	return "|" + name + "|"
}

func (vc *VC) declare(name, sort string) string {
	qn := q(name)
	if !vc.declSet[qn] {
		vc.declSet[qn] = true
		vc.decls = append(vc.decls, fmt.Sprintf("(declare-fun %s () %s)", qn, sort))
	}
	return qn
}

func (vc *VC) declareFun(name string, args []string, res string) string {
	qn := q(name)
	if !vc.declSet[qn] {
		vc.declSet[qn] = true
		vc.decls = append(vc.decls, fmt.Sprintf("(declare-fun %s (%s) %s)", qn, strings.Join(args, " "), res))
	}
	return qn
}

func (vc *VC) freshConst(hint, sort string) string {
	vc.seq++
	return vc.declare(fmt.Sprintf("%s!%d", hint, vc.seq), sort)
}

func (vc *VC) assert(t string) { vc.cons = append(vc.cons, t) }

// assume adds a fact that is only known when control reaches the current block.
func (vc *VC) assume(t string) {
	r := vc.reach[vc.cur]
	if r == "" || r == "true" {
		vc.assert(t)
		return
	}
	vc.assert(fmt.Sprintf("(=> %s %s)", r, t))
}

func (vc *VC) abstracted(what string) { vc.Abstract[what]++ }

func intLit(n int64) string {
	if n < 0 {
		return fmt.Sprintf("(- %d)", -n)
	}
	return fmt.Sprintf("%d", n)
}

func and(ts ...string) string {
	var out []string
	for _, t := range ts {
		if t == "true" || t == "" {
			continue
		}
		out = append(out, t)
	}
	if len(out) == 0 {
		return "true"
	}
	if len(out) == 1 {
		return out[0]
	}
	return "(and " + strings.Join(out, " ") + ")"
}

func or(ts ...string) string {
	if len(ts) == 0 {
		return "false"
	}
	if len(ts) == 1 {
		return ts[0]
	}
	return "(or " + strings.Join(ts, " ") + ")"
}

func not(t string) string { return "(not " + t + ")" }

// ---- types -----------------------------------------------------------------------

func isBoolType(t types.Type) bool {
	if t == nil {
		return false
	}
	b, ok := t.Underlying().(*types.Basic)
	return ok && b.Info()&types.IsBoolean != 0
}

func sortOf(t types.Type) string {
	if isBoolType(t) {
		return "Bool"
	}
	return "Int"
}

func zeroOf(t types.Type) string {
	if isBoolType(t) {
		return "false"
	}
	return "0"
}

func (vc *VC) typeID(t types.Type) int {
	s := types.TypeString(t, nil)
	if id, ok := vc.typeIDs[s]; ok {
		return id
	}
	id := len(vc.typeIDs) + 1
	vc.typeIDs[s] = id
	vc.typeList = append(vc.typeList, t)
	return id
}

func (vc *VC) strLit(s string) string {
	if id, ok := vc.strLits[s]; ok {
		return fmt.Sprintf("%d", id)
	}
	id := len(vc.strLits)
	vc.strLits[s] = id
	vc.strList = append(vc.strList, s)
	vc.assert(fmt.Sprintf("(= (slen %d) %d)", id, len(s)))
	return fmt.Sprintf("%d", id)
}

func intRange(t types.Type) (lo, hi string, ok bool) {
	b, isB := t.Underlying().(*types.Basic)
	if !isB || b.Info()&types.IsInteger == 0 {
		return "", "", false
	}
	switch b.Kind() {
	case types.Int8:
		return "(- 128)", "127", true
	case types.Int16:
		return "(- 32768)", "32767", true
	case types.Int32:
		return "(- 2147483648)", "2147483647", true
	case types.Int, types.Int64, types.UntypedInt, types.UntypedRune:
		return "(- 9223372036854775808)", "9223372036854775807", true
	case types.Uint8:
		return "0", "255", true
	case types.Uint16:
		return "0", "65535", true
	case types.Uint32:
		return "0", "4294967295", true
	case types.Uint, types.Uint64, types.Uintptr:
		return "0", "18446744073709551615", true
	}
	return "", "", false
}

func structOf(t types.Type) (*types.Struct, bool) {
	if t == nil {
		return nil, false
	}
	s, ok := t.Underlying().(*types.Struct)
	return s, ok
}

func deref(t types.Type) types.Type {
	if p, ok := t.Underlying().(*types.Pointer); ok {
		return p.Elem()
	}
	return t
}

func isPointerLike(t types.Type) bool {
	switch t.Underlying().(type) {
	case *types.Pointer, *types.Map, *types.Chan, *types.Signature:
		return true
	}
	return false
}

func typeStr(t types.Type) string { return types.TypeString(t, nil) }

// shortType gives a compact type string for keys ("ast.Task").
func shortType(t types.Type) string {
	return types.TypeString(t, func(p *types.Package) string { return p.Path() })
}

// ---- state component keys --------------------------------------------------------

func (vc *VC) keyMeta(key string) keyMeta {
	if m, ok := vc.keyMetas[key]; ok {
		return m
	}
	panic("unknown state key " + key)
}

func (vc *VC) fieldKey(st types.Type, i int) string {
	s, _ := structOf(st)
	f := s.Field(i)
	key := "F:" + shortType(st) + "." + recFieldName(st, i)
	if _, ok := vc.keyMetas[key]; !ok {
		vc.keyMetas[key] = keyMeta{Sort: "(Array Int " + sortOf(f.Type()) + ")"}
	}
	return key
}

func (vc *VC) cellKey(t types.Type) string {
	key := "C:" + shortType(t)
	if _, ok := vc.keyMetas[key]; !ok {
		vc.keyMetas[key] = keyMeta{Sort: "(Array Int " + sortOf(t) + ")"}
	}
	return key
}

func (vc *VC) elemKey(t types.Type) string {
	key := "E:" + shortType(t)
	if _, ok := vc.keyMetas[key]; !ok {
		vc.keyMetas[key] = keyMeta{Sort: "(Array Int (Array Int " + sortOf(t) + "))"}
	}
	return key
}

func (vc *VC) mapKeys(m *types.Map) (dom, val string) {
	base := shortType(m)
	dom, val = "MD:"+base, "MV:"+base
	if _, ok := vc.keyMetas[dom]; !ok {
		vc.keyMetas[dom] = keyMeta{Sort: "(Array Int (Array Int Bool))"}
		vc.keyMetas[val] = keyMeta{Sort: "(Array Int (Array Int " + sortOf(m.Elem()) + "))"}
	}
	return
}

func (vc *VC) ghostKey(name string) (string, *GhostDecl, bool) {
	if name == "$alloc" {
		key := "G:$alloc"
		if _, ok := vc.keyMetas[key]; !ok {
			vc.keyMetas[key] = keyMeta{Sort: "Int", Ghost: true, Local: true}
		}
		return key, nil, true
	}
	gd, ok := vc.C.Ghosts[name]
	if !ok || gd.Kind == "func" {
		return "", gd, false
	}
	key := "G:" + name
	if _, ok := vc.keyMetas[key]; !ok {
		switch gd.Kind {
		case "fact":
			s := "Bool"
			for range gd.Params {
				s = "(Array Int " + s + ")"
			}
			vc.keyMetas[key] = keyMeta{Sort: s, Mono: true, Arity: len(gd.Params), Ghost: true}
		case "table":
			s := "Int"
			if gd.Result == "bool" {
				s = "Bool"
			}
			for range gd.Params {
				s = "(Array Int " + s + ")"
			}
			vc.keyMetas[key] = keyMeta{Sort: s, Arity: len(gd.Params), Ghost: true, Local: gd.Local}
		case "var":
			s := "Int"
			if gd.Result == "bool" {
				s = "Bool"
			}
			vc.keyMetas[key] = keyMeta{Sort: s, Ghost: true, Local: true, Scratch: gd.Scratch}
		}
	}
	return key, gd, true
}

func (vc *VC) allocKey() string { k, _, _ := vc.ghostKey("$alloc"); return k }

// ---- values ------------------------------------------------------------------------

func (vc *VC) constVal(c *ssa.Const) string {
	t := c.Type()
	if c.Value == nil {
		return zeroOf(t)
	}
	switch c.Value.Kind() {
	case constant.Bool:
		if constant.BoolVal(c.Value) {
			return "true"
		}
		return "false"
	case constant.String:
		return vc.strLit(constant.StringVal(c.Value))
	case constant.Int:
		if b, ok := t.Underlying().(*types.Basic); ok && b.Info()&types.IsFloat != 0 {
			break
		}
		s := c.Value.ExactString()
		if strings.HasPrefix(s, "-") {
			return "(- " + s[1:] + ")"
		}
		return s
	}
	vc.abstracted("float/complex constant")
	return vc.freshConst("fconst", "Int")
}

func (vc *VC) valName(v ssa.Value) string {
	switch v := v.(type) {
	case *ssa.Parameter:
		return vc.inlPrefix + "p_" + v.Name()
	case *ssa.FreeVar:
		return vc.inlPrefix + "fv_" + v.Name()
	}
	return vc.inlPrefix + "v_" + v.Name()
}

// val returns the SMT term of an SSA value.
func (vc *VC) val(v ssa.Value) string {
	if t, ok := vc.vals[v]; ok {
		return t
	}
	var t string
	switch v := v.(type) {
	case *ssa.Const:
		return vc.constVal(v)
	case *ssa.Global:
		t = vc.globalRef(v.Pkg.Pkg.Path() + "." + v.Name())
	case *ssa.Function:
		id := vc.funcID(v)
		t = fmt.Sprintf("(- %d)", id)
		if !vc.declSet["fnfact:"+t] {
			vc.declSet["fnfact:"+t] = true
			vc.assert(fmt.Sprintf("(= (clofn %s) %d)", t, id))
		}
		return t
	case *ssa.Builtin:
		t = vc.declare("builtin_"+v.Name(), "Int")
	default:
		// not yet defined (e.g. value from a block that was skipped): unconstrained
		t = vc.declare(vc.valName(v), sortOf(v.Type()))
	}
	vc.vals[v] = t
	return t
}

// funcID interns a function identity (value of clofn for closures of that function).
func (vc *VC) funcID(f *ssa.Function) int {
	n := CanonName(f)
	if id, ok := vc.funcIDs[n]; ok {
		return id
	}
	id := len(vc.funcIDs) + 1
	vc.funcIDs[n] = id
	return id
}

// globalRef: the address of a package-level variable (allocated before entry, distinct from other globals).
func (vc *VC) globalRef(name string) string {
	t := vc.declare("g_"+name, "Int")
	if !vc.declSet["gfact:"+t] {
		vc.declSet["gfact:"+t] = true
		vc.assert(fmt.Sprintf("(and (> %s 0) (<= %s %s))", t, t, vc.entryAlloc))
		for _, g := range vc.globals {
			vc.assert(fmt.Sprintf("(not (= %s %s))", t, g))
		}
		vc.globals = append(vc.globals, t)
	}
	return t
}

// define introduces the SMT constant for an instruction result, equal to term.
func (vc *VC) define(v ssa.Value, term string) string {
	n := vc.declare(vc.valName(v), sortOf(v.Type()))
	vc.vals[v] = n
	if term != "" {
		vc.assert(fmt.Sprintf("(= %s %s)", n, term))
	}
	return n
}

// havocVal introduces an unconstrained constant for v plus the facts of its type (a havoc source).
func (vc *VC) havocVal(v ssa.Value) string {
	n := vc.define(v, "")
	vc.typeFacts(n, v.Type(), false)
	return n
}

// typeFacts assumes range / shape facts on a havoc source.
func (vc *VC) typeFacts(term string, t types.Type, nonnil bool) {
	if lo, hi, ok := intRange(t); ok {
		vc.assume(fmt.Sprintf("(and (<= %s %s) (<= %s %s))", lo, term, term, hi))
		return
	}
	switch u := t.Underlying().(type) {
	case *types.Slice:
		vc.assume(fmt.Sprintf("(and (<= 0 (sl_len %s)) (<= (sl_len %s) (sl_cap %s)) (<= 0 (sl_off %s)) (<= 0 (sl_arr %s)) (<= (sl_arr %s) %s))", term, term, term, term, term, term, vc.st.get(vc.allocKey())))
	case *types.Pointer, *types.Map:
		vc.assume(fmt.Sprintf("(and (<= 0 %s) (<= %s %s))", term, term, vc.st.get(vc.allocKey())))
		if nonnil {
			vc.assume(fmt.Sprintf("(not (= %s 0))", term))
		}
		vc.typeInvFacts(term, t)
	case *types.Interface:
		vc.assume(fmt.Sprintf("(= (= %s 0) (= (itag %s) 0))", term, term))
		vc.assume(fmt.Sprintf("(<= 0 (itag %s))", term))
	case *types.Basic:
		_ = u
	}
}

// typeInvFacts assumes the declared invariants of an (external) pointer type on a havoc source.
func (vc *VC) typeInvFacts(term string, t types.Type) {
	if len(vc.C.TypeInvs) == 0 || vc.inTypeInv {
		return
	}
	ts := shortType(t)
	for _, c := range vc.C.TypeInvs {
		if c.Site != ts && !hasSuffixAt(ts, strings.TrimPrefix(c.Site, "*")) {
			continue
		}
		if strings.HasPrefix(c.Site, "*") != strings.HasPrefix(ts, "*") {
			continue
		}
		vc.inTypeInv = true
		env := vc.newEnv(vc.st, vc.st, c.Detail)
		env.vars["self"] = sval{term: term, typ: t}
		g := vc.trBool(c.Expr, env, c)
		vc.inTypeInv = false
		vc.assume(fmt.Sprintf("(=> (not (= %s 0)) %s)", term, g))
		vc.usedContracts["typeinv "+c.Site+": "+c.Text] = true
	}
}

func (vc *VC) posOf(p token.Pos) string {
	if !p.IsValid() {
		return ""
	}
	pp := vc.P.SSA.Fset.Position(p)
	f := pp.Filename
	if strings.HasPrefix(f, vc.P.RepoDir+"/") {
		f = f[len(vc.P.RepoDir)+1:]
	}
	return fmt.Sprintf("%s:%d", f, pp.Line)
}

// oblige records a proof obligation at the current program point.
func (vc *VC) oblige(kind, detail, goal string, tags []string, pos token.Pos, cl *Clause) *Obligation {
	if len(tags) == 0 && !(kind == "cover") {
		// a clause without a property tag supports every tagged clause of its function (it is assumed when they
		// are proved), so it is an obligation of each of those properties
		tags = vc.tagsOfFunc()
	}
	vc.counts[kind]++
	name := fmt.Sprintf("%s/%s#%d", vc.Name, kind, vc.counts[kind])
	if detail != "" {
		name += "/" + detail
	}
	o := &Obligation{Name: name, Func: vc.Name, Kind: kind, Tags: tags, Pos: len(vc.cons), Reach: vc.reach[vc.cur],
		Goal: goal, SrcPos: vc.posOf(pos), Clause: cl, Detail: map[string]string{}}
	if vc.cur != nil {
		o.Block = vc.cur.Index
	}
	if cl != nil {
		o.Text, o.File, o.Line = cl.Text, cl.File, cl.Line
		if vc.lastEnv != nil {
			e := *vc.lastEnv
			o.Env = &e
		}
	}
	vc.Obls = append(vc.Obls, o)
	return o
}
