package gvc

// expandStructural turns structural directives (fields_copied ...) into per-field clauses.
func (w *World) expandStructural() {}
