package gvc

import (
	"fmt"
	"go/types"

	"golang.org/x/tools/go/ssa"
)

// expandStructural turns structural directives into per-field clauses, generated from go/types so that
// a field added to the struct later gets its own obligation automatically.
//
//	fields_copied (*T).DeepCopy [Cnn]
//
// expands to, for receiver r and every field F of T (unless listed by skipfield):
//
//	ensures (result == nil) == (r == nil)
//	ensures r != nil ==> eqv(result.F, r.F)          -- detail "field:F"
//
// where eqv is == for scalars, and "same value, or a recorded deep copy of it" (ghost fact iscopy) for
// pointers, slices and maps. Callers additionally get the derived clause iscopy(result, r): it is the
// definition of the fact (a value returned by a function whose per-field obligations are all checked).
func (w *World) expandStructural() {
	if w.expanded {
		return
	}
	w.expanded = true
	// "fields_copied *": every DeepCopy method of the package (pointer receiver to a struct) that is not listed
	// explicitly - so that a DeepCopy method ADDED later (and picked up by deepcopy.Slice through its Copier
	// interface) is under the same per-field obligations from its first day
	var extra []*FieldsCopied
	for _, fc := range w.C.FCopied {
		if fc.Func != fc.Pkg+".*" {
			continue
		}
		for name, fn := range w.P.Funcs {
			if FuncPkgPath(fn) != fc.Pkg || fn.Name() != "DeepCopy" || fn.Signature.Recv() == nil || len(fn.Params) == 0 {
				continue
			}
			if _, ok := structOf(deref(fn.Params[0].Type())); !ok {
				continue
			}
			listed := false
			for _, other := range w.C.FCopied {
				if other.Func == name {
					listed = true
				}
			}
			if !listed {
				extra = append(extra, &FieldsCopied{Func: name, Tags: fc.Tags, Pkg: fc.Pkg, File: fc.File, Line: fc.Line, Skip: map[string]string{}})
			}
		}
	}
	w.C.FCopied = append(w.C.FCopied, extra...)
	for _, fc := range w.C.FCopied {
		if fc.Func == fc.Pkg+".*" {
			continue
		}
		fn := w.P.Funcs[fc.Func]
		c := w.C.Funcs[fc.Func]
		if c == nil {
			c = &FuncContract{Name: fc.Func, Pkg: fc.Pkg, File: fc.File, Line: fc.Line, Nilable: map[string]bool{}, Tags: map[string]bool{}}
			w.C.Funcs[fc.Func] = c
		}
		for _, t := range fc.Tags {
			c.Tags[t] = true
		}
		if fn == nil {
			continue // reported as contract-binding failure by the check
		}
		if len(fn.Params) == 0 {
			continue
		}
		recv := fn.Params[0]
		if fc.Local != "" {
			w.expandDecoded(fc, fn, c)
			continue
		}
		c.Nilable[recv.Name()] = true
		c.Nilable["result"] = true
		st, ok := structOf(deref(recv.Type()))
		if !ok {
			continue
		}
		c.NoSafety = true
		c.Pure, c.Allocates, c.HasMod = true, true, true
		r := &EIdent{recv.Name()}
		res := &EIdent{"result"}
		add := func(e Expr, detail string, derived bool) {
			cl := &Clause{Kind: "ensures", Expr: e, Text: e.String(), Tags: fc.Tags, File: fc.File, Line: fc.Line, Index: len(c.Ensures) + 1, Derived: derived, Detail: detail}
			c.Ensures = append(c.Ensures, cl)
		}
		add(&EBinary{"<==>", &EBinary{"==", res, &ENil{}}, &EBinary{"==", r, &ENil{}}}, "nil-iff-nil", false)
		for i := 0; i < st.NumFields(); i++ {
			f := st.Field(i)
			if _, skip := fc.Skip[f.Name()]; skip {
				continue
			}
			a, b := &EField{res, f.Name()}, &EField{r, f.Name()}
			e := eqvExpr(a, b, f.Type())
			add(&EBinary{"==>", &EBinary{"!=", r, &ENil{}}, e}, "field:"+f.Name(), false)
		}
		add(&EBinary{"==>", &EBinary{"!=", r, &ENil{}}, &ECall{"iscopy", []Expr{res, r}}}, "iscopy", true)
		// the copy is a new object, and so is everything mutable it points to (pointer and map fields):
		// a later in-place change of the copy (Tasks.Merge sets names, merges vars) must not reach the original
		add(&EBinary{"==>", &EBinary{"!=", r, &ENil{}}, &ECall{"fresh", []Expr{res}}}, "fresh", false)
		for i := 0; i < st.NumFields(); i++ {
			f := st.Field(i)
			if _, skip := fc.Skip[f.Name()]; skip {
				continue
			}
			switch f.Type().Underlying().(type) {
			case *types.Pointer, *types.Map:
				a, b := &EField{res, f.Name()}, &EField{r, f.Name()}
				cond := &EBinary{"&&", &EBinary{"!=", r, &ENil{}}, &EBinary{"!=", b, &ENil{}}}
				add(&EBinary{"==>", cond, &EBinary{"&&", &EBinary{"!=", a, b}, &ECall{"fresh", []Expr{a}}}}, "fresh:"+f.Name(), false)
			}
		}
	}
}

func eqvExpr(a, b Expr, t types.Type) Expr {
	switch u := t.Underlying().(type) {
	case *types.Basic:
		return &EBinary{"==", a, b}
	case *types.Struct:
		var out Expr
		for i := 0; i < u.NumFields(); i++ {
			f := u.Field(i)
			e := eqvExpr(&EField{a, f.Name()}, &EField{b, f.Name()}, f.Type())
			if out == nil {
				out = e
			} else {
				out = &EBinary{"&&", out, e}
			}
		}
		if out == nil {
			return &EBool{true}
		}
		return out
	case *types.Slice, *types.Pointer, *types.Map:
		// same value, or a recorded deep copy (the callee's contract says what a copy preserves)
		return &EBinary{"||", &EBinary{"==", a, b}, &ECall{"iscopy", []Expr{a, b}}}
	}
	return &EBinary{"==", a, b}
}

// iscopyKey: the ghost fact "x is a recorded deep copy of y" for values of type t.
func (vc *VC) iscopyKey(t types.Type) string {
	key := "G:iscopy$" + shortType(t)
	if _, ok := vc.keyMetas[key]; !ok {
		vc.keyMetas[key] = keyMeta{Sort: "(Array Int (Array Int Bool))", Mono: true, Arity: 2, Ghost: true}
	}
	return key
}

// expandDecoded: "fields_decoded (*T).UnmarshalYAML local" - the decoder fills the local struct from the document and
// takes every field the receiver type has too (same name, same type) over UNCHANGED: no default is filled in, nothing
// is normalised, nothing is dropped. One clause per field, generated from go/types (a field added to both later is
// covered from its first day); a field that is deliberately treated differently is listed with skipfield.
//
//	ensures result == nil ==> recv.F == local.F          -- detail "decoded:F"
//
// The clauses are evaluated at the returns where the local is in scope (the mapping form of the document).
func (w *World) expandDecoded(fc *FieldsCopied, fn *ssa.Function, c *FuncContract) {
	recv := fn.Params[0]
	st, ok := structOf(deref(recv.Type()))
	if !ok {
		return
	}
	// the local: an Alloc of a struct type whose comment is the variable's name
	var lt *types.Struct
	for _, b := range fn.Blocks {
		for _, ins := range b.Instrs {
			if al, isAl := ins.(*ssa.Alloc); isAl && al.Comment == fc.Local {
				if s, isS := structOf(deref(al.Type())); isS {
					lt = s
				}
			}
		}
	}
	if lt == nil {
		// reported as a binding failure: the clause names a variable that is nowhere in scope
		e := &EBinary{"==>", &EBinary{"==", &EIdent{"result"}, &ENil{}}, &EBinary{"==", &EField{&EIdent{recv.Name()}, st.Field(0).Name()}, &EField{&EIdent{fc.Local}, st.Field(0).Name()}}}
		c.Ensures = append(c.Ensures, &Clause{Kind: "ensures", Expr: e, Text: e.String(), Tags: fc.Tags, File: fc.File, Line: fc.Line, Index: len(c.Ensures) + 1, Detail: "decoded:?"})
		return
	}
	for i := 0; i < lt.NumFields(); i++ {
		lf := lt.Field(i)
		if _, skip := fc.Skip[lf.Name()]; skip {
			continue
		}
		for j := 0; j < st.NumFields(); j++ {
			rf := st.Field(j)
			if rf.Name() != lf.Name() {
				continue
			}
			if !types.Identical(rf.Type(), lf.Type()) {
				// decoded as another type and converted afterwards: the conversion is where values change (an enum
				// entry decoded as a number and printed again is no longer the text that was written)
				e := &EBinary{"==>", &EBinary{"==", &EIdent{"result"}, &ENil{}}, &EBool{false}}
				c.Ensures = append(c.Ensures, &Clause{Kind: "ensures", Expr: e, Text: fmt.Sprintf("%s.%s (%s) is decoded as %s", recv.Name(), rf.Name(), typeStr(rf.Type()), typeStr(lf.Type())), Tags: fc.Tags, File: fc.File, Line: fc.Line, Index: len(c.Ensures) + 1, Detail: "decoded-type:" + rf.Name()})
				continue
			}
			if _, isStruct := rf.Type().Underlying().(*types.Struct); isStruct {
				continue // struct-valued fields (Prompt, Output, Location): compared field by field where a clause needs it
			}
			e := &EBinary{"==>", &EBinary{"==", &EIdent{"result"}, &ENil{}}, &EBinary{"==", &EField{&EIdent{recv.Name()}, rf.Name()}, &EField{&EIdent{fc.Local}, lf.Name()}}}
			c.Ensures = append(c.Ensures, &Clause{Kind: "ensures", Expr: e, Text: e.String(), Tags: fc.Tags, File: fc.File, Line: fc.Line, Index: len(c.Ensures) + 1, Detail: "decoded:" + rf.Name()})
		}
	}
}

var _ = fmt.Sprint
