package gvc

import (
	"fmt"
	"strings"
)

// specToGo compiles a simple specification expression to a Go boolean/value expression, for replaying a
// failed clause on the real code. names maps specification identifiers to Go expressions. It supports
// fields, indexing, len, comparisons, boolean connectives, nil and bounded integer quantifiers of the form
// "forall i :: lo <= i && i < hi ==> P". ok is false when the expression is outside that fragment.
func specToGo(e Expr, names map[string]string) (s string, ok bool) {
	defer func() {
		if r := recover(); r != nil {
			s, ok = "", false
		}
	}()
	return goExpr(e, names), true
}

func goExpr(e Expr, names map[string]string) string {
	switch e := e.(type) {
	case *EInt:
		return e.V
	case *EStr:
		return fmt.Sprintf("%q", e.V)
	case *EBool:
		return fmt.Sprint(e.V)
	case *ENil:
		return "nil"
	case *EIdent:
		if g, ok := names[e.Name]; ok {
			return g
		}
		panic("unknown name " + e.Name)
	case *EUnary:
		return "(" + e.Op + goExpr(e.X, names) + ")"
	case *EField:
		if id, ok := e.X.(*EIdent); ok && id.Name == "result" {
			if g, ok := names["result."+e.Name]; ok {
				return g
			}
		}
		return goExpr(e.X, names) + "." + e.Name
	case *EIndex:
		return goExpr(e.X, names) + "[" + goExpr(e.I, names) + "]"
	case *ECond:
		return fmt.Sprintf("func() any { if %s { return %s }; return %s }()", goExpr(e.C, names), goExpr(e.A, names), goExpr(e.B, names))
	case *ECall:
		if e.Fun == "len" && len(e.Args) == 1 {
			return "len(" + goExpr(e.Args[0], names) + ")"
		}
		panic("call " + e.Fun)
	case *EBinary:
		x, y := goExpr(e.X, names), goExpr(e.Y, names)
		switch e.Op {
		case "==>":
			return "(!(" + x + ") || (" + y + "))"
		case "<==>":
			return "((" + x + ") == (" + y + "))"
		case "&&", "||", "==", "!=", "<", "<=", ">", ">=", "+", "-", "*", "/", "%":
			return "(" + x + " " + e.Op + " " + y + ")"
		}
		panic("op " + e.Op)
	case *EQuant:
		if len(e.Vars) != 1 || e.Vars[0].Type != "int" {
			panic("quantifier")
		}
		v := e.Vars[0].Name
		imp, ok := e.Body.(*EBinary)
		if !ok || imp.Op != "==>" {
			panic("quantifier body")
		}
		var lo, hi string
		var walk func(x Expr)
		walk = func(x Expr) {
			b, ok := x.(*EBinary)
			if !ok {
				panic("range")
			}
			switch b.Op {
			case "&&":
				walk(b.X)
				walk(b.Y)
			case "<=":
				if id, ok := b.Y.(*EIdent); ok && id.Name == v {
					lo = goExpr(b.X, names)
					return
				}
				panic("range")
			case "<":
				if id, ok := b.X.(*EIdent); ok && id.Name == v {
					hi = goExpr(b.Y, names)
					return
				}
				panic("range")
			default:
				panic("range")
			}
		}
		walk(imp.X)
		if lo == "" || hi == "" {
			panic("range")
		}
		sub := map[string]string{}
		for k, x := range names {
			sub[k] = x
		}
		sub[v] = v
		body := goExpr(imp.Y, sub)
		if e.Forall {
			return fmt.Sprintf("func() bool { for %s := %s; %s < %s; %s++ { if !(%s) { return false } }; return true }()", v, lo, v, hi, v, body)
		}
		return fmt.Sprintf("func() bool { for %s := %s; %s < %s; %s++ { if %s { return true } }; return false }()", v, lo, v, hi, v, body)
	}
	panic("unsupported")
}

var _ = strings.TrimSpace
