package gvc

import (
	"bufio"

	"golang.org/x/tools/go/ssa"
	"encoding/json"
	"flag"
	"fmt"
	"os"
	"path/filepath"
	"sort"
	"strconv"
	"go/types"
	"strings"
	"time"
)

func hasTag(tags []string, t string) bool {
	for _, x := range tags {
		if x == t {
			return true
		}
	}
	return false
}

// KnownFinding is one entry of /verif/KNOWN_FINDINGS.jsonl.
type KnownFinding struct {
	Property string `json:"property"`
	Func     string `json:"func"`             // canonical function name
	Kind     string `json:"kind"`             // obligation kind
	Clause   string `json:"clause,omitempty"` // substring of the obligation's stable detail (e.g. "field:Watch")
	Text     string `json:"text,omitempty"`   // substring of the clause text (robust against renumbering of clauses)
	Case     string `json:"case,omitempty"`   // spec expression: the failing inputs; obligation is re-posed with !case
	What     string `json:"what"`
	Fixed    string `json:"fixed,omitempty"` // "fixed: property=<id> <commit> <what>": suppresses nothing
}

func loadKnown(path string) ([]KnownFinding, error) {
	f, err := os.Open(path)
	if err != nil {
		if os.IsNotExist(err) {
			return nil, nil
		}
		return nil, err
	}
	defer f.Close()
	var out []KnownFinding
	sc := bufio.NewScanner(f)
	sc.Buffer(make([]byte, 1<<20), 1<<20)
	for sc.Scan() {
		line := strings.TrimSpace(sc.Text())
		if line == "" || strings.HasPrefix(line, "#") || strings.HasPrefix(line, "//") {
			continue
		}
		var k KnownFinding
		if err := json.Unmarshal([]byte(line), &k); err != nil {
			return nil, fmt.Errorf("%s: %v", path, err)
		}
		out = append(out, k)
	}
	return out, nil
}

// stableKey identifies an obligation independently of line numbers and return-site ordinals.
func (o *Obligation) stableKey() string {
	name := o.Name
	if i := strings.Index(name, "/"+o.Kind+"#"); i >= 0 {
		rest := name[i+len(o.Kind)+2:]
		if j := strings.Index(rest, "/"); j >= 0 {
			rest = rest[j+1:]
		} else {
			rest = ""
		}
		// drop "return#k/" from ensures obligations
		if strings.HasPrefix(rest, "return#") {
			if j := strings.Index(rest, "/"); j >= 0 {
				rest = rest[j+1:]
			}
		}
		return o.Kind + "/" + rest
	}
	return o.Kind
}

func (k *KnownFinding) matches(o *Obligation, prop string) bool {
	if k.Fixed != "" || k.Property != prop {
		return false
	}
	if k.Func != "" && k.Func != o.Func && !matchCallee(o.Func, k.Func) {
		return false
	}
	if k.Kind != "" && k.Kind != o.Kind {
		return false
	}
	if k.Clause != "" && !strings.Contains(o.stableKey(), k.Clause) {
		return false
	}
	if k.Text != "" && !strings.Contains(o.Text, k.Text) {
		return false
	}
	return true
}

type Evidence struct {
	PropertyID  string         `json:"property_id"`
	Tier        string         `json:"tier"`
	Seed        int            `json:"seed"`
	Level       string         `json:"level"`
	Coverage    map[string]any `json:"coverage"`
	Assumptions []string       `json:"assumptions"`
	WallS       float64        `json:"wall_s"`
	Violations  int            `json:"violations"`
}

func cmdCheck(args []string) int {
	fs := flag.NewFlagSet("check", flag.ContinueOnError)
	tier := fs.String("tier", "", "quick|thorough")
	timeout := fs.Int("timeout", 0, "solver timeout ms")
	dump := fs.String("dump", "", "directory for SMT files")
	verbose := fs.Bool("v", false, "verbose")
	var prop string
	if len(args) > 0 && !strings.HasPrefix(args[0], "-") {
		prop = args[0]
		args = args[1:]
	}
	if err := fs.Parse(args); err != nil {
		return 2
	}
	if prop == "" && fs.NArg() > 0 {
		prop = fs.Arg(0)
	}
	if prop == "" {
		fmt.Fprintln(os.Stderr, "usage: gvc check <property> [--tier quick|thorough]")
		return 2
	}
	if *tier == "" {
		*tier = os.Getenv("VERIF_TIER")
	}
	if *tier != "thorough" {
		*tier = "quick"
	}
	seed, _ := strconv.Atoi(os.Getenv("VERIF_SEED"))
	if *timeout == 0 {
		*timeout = 6000
		if *tier == "thorough" {
			*timeout = 30000
		}
	}
	t0 := time.Now()
	w, err := loadWorld()
	if err != nil {
		fmt.Printf("ERROR: cannot load %s: %v\n", RepoDir, err)
		fmt.Printf("VIOLATION property=%s replay=%s no-failing-input-found\n", prop, writeLoadFailure(prop, err))
		return 1
	}
	loadS := time.Since(t0).Seconds()
	res := w.CheckProperty(prop, *tier, *timeout, *dump, *verbose)
	res.Seed = seed
	res.LoadS = loadS
	res.WallS = time.Since(t0).Seconds()
	res.start = t0
	return res.Report()
}

func writeLoadFailure(prop string, err error) string {
	dir := filepath.Join(OutDir(), "replays", prop)
	os.MkdirAll(dir, 0o755)
	p := filepath.Join(dir, "load-failure.json")
	b, _ := json.MarshalIndent(map[string]any{"obligation": "load", "error": err.Error()}, "", " ")
	os.WriteFile(p, b, 0o644)
	return p
}

type PropResult struct {
	Prop        string
	Tier        string
	Seed        int
	W           *World
	VCs         []*VC
	Items       []SolveItem
	Trusted     []string
	GenErrors   []string
	Known       []KnownFinding
	LoadS       float64
	WallS       float64
	Structural  []*Obligation
	extraAssume []string
	start       time.Time
}

// CheckProperty generates and discharges every obligation tagged with the property.
func (w *World) CheckProperty(prop, tier string, timeoutMs int, dump string, verbose bool) *PropResult {
	r := &PropResult{Prop: prop, Tier: tier, W: w}
	tStart := time.Now()
	defer func() {
		if os.Getenv("GVC_SLOW") != "" {
			fmt.Printf("TIMING CheckProperty %.1fs\n", time.Since(tStart).Seconds())
		}
	}()
	known, err := loadKnown(filepath.Join(VerifDir, "KNOWN_FINDINGS.jsonl"))
	if err != nil {
		r.GenErrors = append(r.GenErrors, err.Error())
	}
	r.Known = known
	w.expandStructural()
	var names []string
	for n, fc := range w.C.Funcs {
		if fc.External || fc.IsFnSpec || !fc.Tags[prop] {
			continue
		}
		names = append(names, n)
	}
	// guarded_by declarations tagged with this property: every repository function that touches a guarded
	// field is examined (no annotation needed), so that a new unsynchronised access anywhere is noticed
	for _, gd := range w.C.Guarded {
		if !hasTag(gd.Tags, prop) {
			continue
		}
		for n, fn := range w.P.Funcs {
			if !w.P.InRepo(FuncPkgPath(fn)) || len(fn.Blocks) == 0 {
				continue
			}
			if touchesField(fn, gd.Field) {
				found := false
				for _, x := range names {
					if x == n {
						found = true
					}
				}
				if !found {
					names = append(names, n)
				}
			}
		}
	}
	// a swept function stands for "nothing here can panic": the repository functions it calls that have no
	// contract of their own and are not verified inline (they contain a loop, a closure ...) are swept too,
	// transitively - a helper a change moves code into is under the same obligations from its first day
	{
		inNames := map[string]bool{}
		for _, n := range names {
			inNames[n] = true
		}
		// "sweep_methods UnmarshalYAML": a method of that name is swept from the day it is written, under contract or not
		for _, sm := range w.C.SweepMethods {
			if !hasTag(sm.Tags, prop) {
				continue
			}
			all := make([]string, 0, len(w.P.Funcs))
			for n := range w.P.Funcs {
				all = append(all, n)
			}
			sort.Strings(all)
			for _, n := range all {
				fn := w.P.Funcs[n]
				if fn == nil || len(fn.Blocks) == 0 || fn.Parent() != nil || fn.Synthetic != "" || fn.Signature.Recv() == nil || !w.P.InRepo(FuncPkgPath(fn)) {
					continue
				}
				hit := false
				for _, m := range sm.Callees {
					hit = hit || fn.Name() == m
				}
				if !hit || inNames[n] || w.C.Funcs[n] != nil {
					continue
				}
				w.C.Funcs[n] = &FuncContract{Name: n, Pkg: FuncPkgPath(fn), Sweep: true, SweepTags: []string{prop}, Tags: map[string]bool{prop: true},
					Nilable: map[string]bool{}, File: sm.File, Line: sm.Line}
				inNames[n] = true
				names = append(names, n)
			}
		}
		// "impl_methods (Iface).Method": the contract of an interface method is what a dynamic call assumes; every
		// repository type that implements the interface has its method verified against those clauses (a type added
		// later is covered from its first day), and a rule that finds no implementation fails as vacuous
		for _, im := range w.C.ImplMethods {
			if !hasTag(im.Tags, prop) {
				continue
			}
			for _, callee := range im.Callees {
				found := w.bindImplMethods(im, callee, prop, inNames, &names)
				o := &Obligation{Name: im.Allowed[0] + "." + callee + "/impl-methods#1", Func: im.Allowed[0] + "." + callee, Kind: "impl-methods", Tags: []string{prop},
					Status: "discharged", Solver: "ssa-scan", Text: fmt.Sprintf("impl_methods %s: %d implementations under the interface contract", callee, found),
					File: im.File, Line: im.Line}
				r.Structural = append(r.Structural, w.implFrameFailures...)
				w.implFrameFailures = nil
				if found <= 0 {
					o.Status = "failed"
					o.Detail = map[string]string{"why": "no interface contract, no such interface, or no repository implementation: the rule checks nothing"}
				}
				r.Structural = append(r.Structural, o)
			}
		}
		work := []string{}
		for _, n := range names {
			if fc := w.C.Funcs[n]; fc != nil && fc.Sweep && hasTag(fc.SweepTags, prop) {
				work = append(work, n)
			}
		}
		for len(work) > 0 {
			n := work[0]
			work = work[1:]
			fn := w.P.Funcs[n]
			if fn == nil {
				continue
			}
			probe := NewVC(w.P, w.C, fn, w.C.Funcs[n])
			for _, b := range fn.Blocks {
				for _, ins := range b.Instrs {
					ci, ok := ins.(ssa.CallInstruction)
					if !ok {
						continue
					}
					callee := ci.Common().StaticCallee()
					if callee == nil || len(callee.Blocks) == 0 || callee.Parent() != nil || !w.P.InRepo(FuncPkgPath(callee)) {
						continue
					}
					cn := CanonName(callee)
					if inNames[cn] || w.C.Funcs[cn] != nil || probe.inlinable(callee) {
						continue
					}
					if probe.inferPure(callee) && !hasLoop(callee) {
						continue
					}
					w.C.Funcs[cn] = &FuncContract{Name: cn, Pkg: FuncPkgPath(callee), Sweep: true, SweepTags: []string{prop}, Tags: map[string]bool{prop: true},
						Nilable: map[string]bool{}}
					inNames[cn] = true
					names = append(names, cn)
					work = append(work, cn)
				}
			}
		}
	}
	sort.Strings(names)
	r.Structural = append(r.Structural, w.stateFieldObligations(prop)...)
	r.Structural = append(r.Structural, w.callersObligations(prop)...)
	r.Structural = append(r.Structural, w.mapRangeObligations(prop)...)
	r.Structural = append(r.Structural, w.spawnedWriteObligations(prop)...)
	r.Structural = append(r.Structural, w.yieldProtocolObligations(prop)...)
	r.Structural = append(r.Structural, w.typedNilObligations(prop)...)
	for _, n := range names {
		fc := w.C.Funcs[n]
		fn := w.P.Funcs[n]
		if fc != nil && fc.Trusted && fn != nil && !fc.Tags[prop] {
			fc = nil // a trusted contract says nothing about locking: scan the body anyway
		}
		if fn == nil && fc != nil && w.implTarget(n) {
			continue // the contract of an interface method: there is no body; its implementations are in names
		}
		if fn == nil {
			o := &Obligation{Name: n + "/contract-binding#1", Func: n, Kind: "contract-binding", Tags: []string{prop}, Status: "failed",
				Detail: map[string]string{"why": "contract names a function that does not exist in the tree"}, File: fc.File, Line: fc.Line}
			r.Structural = append(r.Structural, o)
			continue
		}
		if fc != nil && fc.Trusted {
			r.Trusted = append(r.Trusted, n)
			continue
		}
		vc := NewVC(w.P, w.C, fn, fc)
		tg := time.Now()
		err := vc.Generate()
		if os.Getenv("GVC_SLOW") != "" && time.Since(tg) > 500*time.Millisecond {
			fmt.Printf("TIMING generate %s %.1fs (%d constraints)\n", n, time.Since(tg).Seconds(), len(vc.cons))
		}
		if err != nil {
			// the contract no longer fits the code (a name it uses is gone, a site moved out of scope ...):
			// every clause of this function is undecided, which is reported as a failed binding obligation
			o := &Obligation{Name: n + "/contract-binding#0", Func: n, Kind: "contract-binding", Tags: []string{prop}, Status: "failed",
				Text:   "the contract of this function can no longer be bound to its code",
				Detail: map[string]string{"why": err.Error()}}
			if fc != nil {
				o.File, o.Line = fc.File, fc.Line
			}
			r.Structural = append(r.Structural, o)
			continue
		}
		r.VCs = append(r.VCs, vc)
		for _, o := range vc.Obls {
			if hasTag(o.Tags, prop) {
				r.Items = append(r.Items, SolveItem{vc, o})
			}
		}
	}
	tGen := time.Now()
	// Obligations covered by a known finding are expected to fail, which costs every solver its full timeout.
	// In the quick tier they are first posed with the known failing case excluded; if that discharges, the
	// original obligation only gets a short budget (enough to notice that it has started to hold).
	short := map[*Obligation]bool{}
	if tier != "thorough" {
		for _, it := range r.Items {
			for i := range r.Known {
				k := &r.Known[i]
				if k.matches(it.O, prop) {
					short[it.O] = true
				}
			}
		}
	}
	var normal, shortItems []SolveItem
	for _, it := range r.Items {
		if short[it.O] {
			shortItems = append(shortItems, it)
		} else {
			normal = append(normal, it)
		}
	}
	SolveAll(normal, SolveOpts{TimeoutMs: timeoutMs, AllSolvers: tier == "thorough", DumpDir: dump})
	SolveAll(shortItems, SolveOpts{TimeoutMs: 1500, DumpDir: dump, NoRelax: true})
	if os.Getenv("GVC_SLOW") != "" {
		fmt.Printf("TIMING solve %.1fs for %d items\n", time.Since(tGen).Seconds(), len(r.Items))
	}
	// known findings: re-pose failing obligations without the known case
	for _, it := range r.Items {
		o := it.O
		if o.Status != "failed" && o.Status != "unknown" {
			continue
		}
		for i := range r.Known {
			k := &r.Known[i]
			if !k.matches(o, prop) {
				continue
			}
			if k.Case == "" || k.Case == "true" {
				o.Known = k.What
				break
			}
			if o.Env == nil {
				continue
			}
			if it.VC.reposeWithout(o, k.Case, timeoutMs) {
				o.Known = k.What
				break
			}
		}
		if o.Known == "" && short[o] {
			// not explained by the known finding: give it the full treatment before calling it a violation
			solveOne(it, SolveOpts{TimeoutMs: timeoutMs, DumpDir: dump})
		}
	}
	return r
}

// reposeWithout re-checks a failed obligation assuming the known failing case is excluded.
func (vc *VC) reposeWithout(o *Obligation, caseExpr string, timeoutMs int) (ok bool) {
	defer func() {
		if r := recover(); r != nil {
			ok = false
		}
	}()
	e, err := ParseSpec(caseExpr)
	if err != nil {
		return false
	}
	saveCons := vc.cons
	term := vc.trBool(e, o.Env, nil)
	extra := vc.cons[len(saveCons):]
	vc.cons = saveCons
	o2 := *o
	o2.Goal = fmt.Sprintf("(or %s %s)", term, o.Goal)
	q := vc.Query(&o2, false)
	if len(extra) > 0 {
		// literals introduced while translating the case (string lengths etc.)
		var b strings.Builder
		for _, c := range extra {
			b.WriteString("(assert " + c + ")\n")
		}
		q = strings.Replace(q, "(check-sat)", b.String()+"(check-sat)", 1)
	}
	for _, s := range Solvers {
		r := runSolver(s, q, timeoutMs/2)
		if r.status == "unsat" {
			return true
		}
		if r.status == "sat" {
			return false
		}
	}
	return false
}

func (r *PropResult) Report() int {
	prop := r.Prop
	all := append([]*Obligation{}, r.Structural...)
	for _, it := range r.Items {
		all = append(all, it.O)
	}
	nOb, nDis, nKnown, nViol, nCover, nVac := 0, 0, 0, 0, 0, 0
	solverCount := map[string]int{}
	solverMs := map[string]int64{}
	var samples []any
	var violations []*Obligation
	knownSeen := map[string]bool{}
	var knownReplay []string
	funcs := map[string]bool{}
	var slowest int64
	for _, o := range all {
		funcs[o.Func] = true
		if o.Cover {
			nCover++
			if o.Status == "cover-vacuous" {
				nVac++
				fmt.Printf("VACUOUS %s: assumptions of %s are contradictory (no return reachable)\n", o.Name, o.Func)
			}
			continue
		}
		nOb++
		if o.Ms > slowest {
			slowest = o.Ms
		}
		switch o.Status {
		case "discharged":
			nDis++
			solverCount[o.Solver]++
			solverMs[o.Solver] += o.Ms
			if len(samples) < 6 {
				samples = append(samples, map[string]any{"obligation": o.Name, "clause": o.Text, "at": o.SrcPos, "solver": o.Solver, "ms": o.Ms, "smt_bytes": o.SMTSize})
			}
		default:
			if o.Known != "" {
				nKnown++
				if !knownSeen[o.Known] {
					knownSeen[o.Known] = true
					fmt.Printf("KNOWN-FINDING: property=%s %s\n", prop, o.Known)
					// thorough tier: the finding is replayed against the real code (it must still reproduce)
					if r.Tier == "thorough" {
						if sc, ok := scenarioForObligation(o); ok {
							failed, _, err := runOverlayTest(sc.pkgRel, "TestGvcReplay", sc.src)
							switch {
							case err != nil:
								knownReplay = append(knownReplay, o.Name+": scenario could not be run: "+err.Error())
							case failed:
								knownReplay = append(knownReplay, o.Name+": REPRODUCED on the real code: "+sc.what)
								fmt.Printf("  reproduced on the real code: %s\n", sc.what)
							default:
								knownReplay = append(knownReplay, o.Name+": scenario did NOT reproduce on this tree: "+sc.what)
								fmt.Printf("  note: the scenario of this finding no longer reproduces on the real code\n")
							}
						}
					}
				}
				samples = append(samples, map[string]any{"obligation": o.Name, "status": "known-finding", "what": o.Known})
				continue
			}
			nViol++
			violations = append(violations, o)
		}
	}
	if os.Getenv("GVC_SLOW") != "" {
		for _, o := range all {
			if o.Ms > 1000 {
				fmt.Printf("SLOW %dms %s %s (%s)\n", o.Ms, o.Status, o.Name, o.Solver)
			}
		}
	}
	for _, ge := range r.GenErrors {
		fmt.Printf("ERROR: %s\n", ge)
	}
	os.RemoveAll(filepath.Join(OutDir(), "replays", prop))
	for _, o := range violations {
		path := writeReplay(r, o)
		suffix := ""
		if o.Detail["replayed"] != "true" {
			suffix = " no-failing-input-found"
		}
		fmt.Printf("  failed obligation %s (%s) at %s: %s\n", o.Name, o.Status, o.SrcPos, o.Text)
		if len(o.Model) > 0 {
			fmt.Printf("    counterexample: %s\n", modelSummary(o.Model, 16))
		}
		fmt.Printf("VIOLATION property=%s replay=%s%s\n", prop, path, suffix)
	}
	// bounded stand-ins for functions outside the engine's reach (reported separately, never as obligations)
	bounded, boundedFailed := runBounded(prop)
	for _, bf := range boundedFailed {
		path := writeBoundedReplay(prop, bf)
		suffix := ""
		if bf.Status != "FAILED" {
			suffix = " no-failing-input-found"
		}
		fmt.Printf("  failed bounded check %s (%s) for %s\n", bf.Name, bf.Status, bf.For)
		fmt.Printf("VIOLATION property=%s replay=%s%s\n", prop, path, suffix)
		nViol++
	}
	// thorough tier: scenario regression against the real code and the must-fail corpus
	var thor *thoroughResult
	if r.Tier == "thorough" && os.Getenv("GVC_NO_SELFTEST") == "" {
		var kt []string
		for i := range r.Known {
			if r.Known[i].Fixed == "" {
				kt = append(kt, r.Known[i].Text)
			}
		}
		var paths []string
		thor, paths = r.thorough(funcs, kt)
		for _, p := range paths {
			fmt.Printf("VIOLATION property=%s replay=%s\n", prop, p)
			nViol++
		}
	}
	if !r.start.IsZero() {
		r.WallS = time.Since(r.start).Seconds()
	}
	// evidence
	var fl []string
	for f := range funcs {
		fl = append(fl, f)
	}
	sort.Strings(fl)
	abstracted := map[string]int{}
	var assumptions []string
	usedContracts := map[string]bool{}
	for _, vc := range r.VCs {
		for k, n := range vc.Abstract {
			abstracted[k] += n
		}
		for k := range vc.usedContracts {
			usedContracts[k] = true
		}
	}
	for _, t := range r.Trusted {
		assumptions = append(assumptions, "trusted (unverified) contract on repository function "+t)
	}
	var uc []string
	for k := range usedContracts {
		uc = append(uc, k)
	}
	sort.Strings(uc)
	for _, k := range uc {
		if r.W.implTarget(k) {
			assumptions = append(assumptions, "interface contract, proved for every repository implementation by the impl_methods rule (checked under the properties the rule is tagged with): "+k)
			continue
		}
		assumptions = append(assumptions, "assumed contract: "+k)
	}
	var ab []string
	ab = append(ab, symbolNotes...)
	for k, n := range abstracted {
		ab = append(ab, fmt.Sprintf("%s (x%d)", k, n))
	}
	sort.Strings(ab)
	assumptions = append(assumptions,
		"machine integers treated as mathematical integers (no overflow check)",
		"string contents opaque: only length, equality, concatenation and assumed library contracts",
		"append returns a fresh backing array (no aliasing)",
		"outside the C16 sweep, absence of run-time panics is assumed (assert-then-assume)",
		"interference by other goroutines only through monotone ghost facts, lock invariants and primitive contracts (rely/guarantee argument on paper, DESIGN 2.5)",
		"go/ssa, go/types, the gvc translation and the SMT solvers are trusted")
	assumptions = append(assumptions, r.extraAssume...)
	if len(samples) == 0 {
		samples = append(samples, "no obligations")
	}
	cov := map[string]any{
		"obligations":            nOb - nKnown,
		"discharged":             nDis,
		"obligations_generated":  nOb,
		"known_findings":         nKnown,
		"known_findings_replayed": knownReplay,
		"bounded_checks":         bounded,
		"thorough_extras":        thor,
		"explanation":            "obligations counts the proof obligations this claim rests on; obligations that are refuted on the current tree and recorded in KNOWN_FINDINGS.jsonl (known_findings) are generated and re-posed on every run but are not part of the proved set: the property is NOT proved for the clause they belong to",
		"violations":             nViol,
		"covers_checked":         nCover,
		"covers_vacuous":         nVac,
		"checker_cmd":            fmt.Sprintf("bin/gvc check %s --tier %s", prop, r.Tier),
		"trusted_base":           []string{"gvc (SSA->SMT VC generator)", "golang.org/x/tools/go/ssa v0.29.0", "go/types", "z3 5.1.0", "z3 4.8.12", "cvc5 1.0.3"},
		"functions_under_contract": fl,
		"trusted_contracts":      append([]string{}, r.Trusted...),
		"by_solver":              solverCount,
		"solver_ms":              solverMs,
		"slowest_obligation_ms":  slowest,
		"abstracted":             ab,
		"samples":                samples,
		"load_s":                 r.LoadS,
		"evaluations":            nOb - nKnown,
		"distinct_nontrivial":    nDis,
		"rule":                   "one SMT query per proof obligation generated from the SSA of /repo's working tree; distinct = distinct obligation names discharged (unsat)",
		"generation_errors":      r.GenErrors,
	}
	ev := Evidence{PropertyID: prop, Tier: r.Tier, Seed: r.Seed, Level: "proof", Coverage: cov, Assumptions: assumptions, WallS: r.WallS, Violations: nViol}
	os.MkdirAll(filepath.Join(OutDir(), "evidence"), 0o755)
	b, _ := json.MarshalIndent(ev, "", " ")
	os.WriteFile(filepath.Join(OutDir(), "evidence", prop+".json"), b, 0o644)
	fmt.Printf("%s: %d obligations, %d discharged, %d known findings, %d violations, %d covers (%d vacuous), %d functions, %.1fs\n",
		prop, nOb, nDis, nKnown, nViol, nCover, nVac, len(fl), r.WallS)
	if len(r.GenErrors) > 0 || nVac > 0 {
		fmt.Printf("BROKEN: the check could not be carried out as designed\n")
		return 2
	}
	if nOb == 0 {
		fmt.Printf("BROKEN: no obligations were generated for %s\n", prop)
		return 2
	}
	if nViol > 0 {
		return 1
	}
	return 0
}

// touchesField: the function contains a FieldAddr of the named field ("pkgpath.Type.field").
func touchesField(fn *ssa.Function, field string) bool {
	for _, b := range fn.Blocks {
		for _, ins := range b.Instrs {
			fa, ok := ins.(*ssa.FieldAddr)
			if !ok {
				continue
			}
			st := deref(fa.X.Type())
			if _, isStruct := structOf(st); isStruct && shortType(st)+"."+recFieldName(st, fa.Field) == field {
				return true
			}
		}
	}
	return false
}

func writeReplay(r *PropResult, o *Obligation) string {
	dir := filepath.Join(OutDir(), "replays", r.Prop)
	os.MkdirAll(dir, 0o755)
	p := filepath.Join(dir, sanitizeFile(o.Name)+".json")
	rep := map[string]any{
		"property":   r.Prop,
		"obligation": o.Name,
		"kind":       o.Kind,
		"function":   o.Func,
		"clause":     o.Text,
		"clause_at":  fmt.Sprintf("%s:%d", o.File, o.Line),
		"code_at":    o.SrcPos,
		"status":     o.Status,
		"solver":     o.Solver,
		"solver_output": o.Raw,
		"model":      o.Model,
		"detail":     o.Detail,
	}
	tryReplay(r, o, rep)
	b, _ := json.MarshalIndent(rep, "", " ")
	os.WriteFile(p, b, 0o644)
	return p
}

func hasLoop(fn *ssa.Function) bool {
	for _, b := range fn.Blocks {
		for _, s := range b.Succs {
			if s.Index <= b.Index && s.Dominates(b) {
				return true
			}
		}
	}
	return false
}

// bindImplMethods puts every repository implementation of the interface method named by callee ("(Iface).Method", in
// the package of the rule) under the clauses of the interface contract. It returns the number of implementations
// that are verified (own contract or the derived one).
func (w *World) bindImplMethods(im *CallersRule, callee, prop string, inNames map[string]bool, names *[]string) int {
	pkg := im.Allowed[0]
	ifc := w.C.Funcs[pkg+"."+callee]
	open := strings.Index(callee, "(")
	cl := strings.Index(callee, ").")
	if ifc == nil || open != 0 || cl < 0 {
		return 0
	}
	iname, mname := strings.TrimPrefix(callee[1:cl], "*"), callee[cl+2:]
	pp := w.P.PkgByPath[pkg]
	if pp == nil || pp.Types == nil {
		return 0
	}
	obj := pp.Types.Scope().Lookup(iname)
	if obj == nil {
		return 0
	}
	iface, ok := obj.Type().Underlying().(*types.Interface)
	if !ok {
		return 0
	}
	all := make([]string, 0, len(w.P.Funcs))
	for n := range w.P.Funcs {
		all = append(all, n)
	}
	sort.Strings(all)
	found := 0
	for _, n := range all {
		fn := w.P.Funcs[n]
		if fn == nil || len(fn.Blocks) == 0 || fn.Parent() != nil || fn.Synthetic != "" || fn.Signature.Recv() == nil || fn.Name() != mname || !w.P.InRepo(FuncPkgPath(fn)) {
			continue
		}
		if !types.Implements(fn.Signature.Recv().Type(), iface) {
			continue
		}
		found++
		if own := w.C.Funcs[n]; own != nil {
			// a contract of its own: the interface clauses are added to it (proved in the body like its own)
			if own.Trusted {
				found--
				continue
			}
			for _, c := range ifc.Ensures {
				cc := *c
				cc.Tags = append([]string{}, im.Tags...)
				cc.Index = len(own.Ensures)
				own.Ensures = append(own.Ensures, &cc)
			}
			// the frame a dynamic call assumes covers what the implementation may change: an implementation without
			// a frame of its own is verified under the interface's; one with a frame must stay inside it
			if ifc.HasMod && !own.HasMod {
				own.HasMod, own.Pure, own.Allocates = true, ifc.Pure, ifc.Allocates
				own.Modifies, own.Preserves = ifc.Modifies, ifc.Preserves
			} else if ifc.HasMod {
				if why := w.frameInside(own, ifc); why != "" {
					w.implFrameFailures = append(w.implFrameFailures, &Obligation{Name: n + "/impl-frame#1", Func: n, Kind: "impl-frame", Tags: []string{prop},
						Status: "failed", Solver: "ssa-scan", Text: "the frame of the implementation stays inside the frame of " + callee,
						Detail: map[string]string{"why": why}, File: own.File, Line: own.Line})
				}
			}
			own.Tags[prop] = true
			if !inNames[n] {
				inNames[n] = true
				*names = append(*names, n)
			}
			continue
		}
		nc := &FuncContract{Name: n, Pkg: FuncPkgPath(fn), Pure: ifc.Pure, Allocates: ifc.Allocates, HasMod: ifc.HasMod, Modifies: ifc.Modifies, Preserves: ifc.Preserves, Blocks: ifc.Blocks,
			Tags: map[string]bool{prop: true}, Nilable: map[string]bool{}, File: im.File, Line: im.Line}
		for _, c := range ifc.Ensures {
			cc := *c
			cc.Tags = append([]string{}, im.Tags...)
			nc.Ensures = append(nc.Ensures, &cc)
		}
		w.C.Funcs[n] = nc
		inNames[n] = true
		*names = append(*names, n)
	}
	return found
}

// implTarget reports whether the canonical name is an interface method named by an impl_methods rule.
func (w *World) implTarget(n string) bool {
	for _, im := range w.C.ImplMethods {
		for _, c := range im.Callees {
			if im.Allowed[0]+"."+c == n {
				return true
			}
		}
	}
	return false
}

// frameInside reports why the frame of an implementation is not contained in the frame of the interface method ("" if it is).
func (w *World) frameInside(own, ifc *FuncContract) string {
	in := func(l []string, x string) bool {
		for _, y := range l {
			if y == x {
				return true
			}
		}
		return false
	}
	if own.Blocks && !ifc.Blocks {
		return "the implementation may block, the interface contract does not say so"
	}
	for _, m := range own.Modifies {
		if in(ifc.Modifies, m) {
			continue
		}
		_, ghost := w.C.Ghosts[m]
		if !ghost && in(ifc.Modifies, "heap") && !in(ifc.Preserves, m) {
			continue // a part of the heap, not one the interface promises to preserve
		}
		return "modifies " + m + " is not allowed by the interface contract"
	}
	if in(own.Modifies, "heap") {
		for _, p := range ifc.Preserves {
			if !in(own.Preserves, p) {
				return "the interface contract preserves " + p + ", the implementation does not"
			}
		}
	}
	return ""
}
