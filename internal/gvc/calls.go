package gvc

import (
	"fmt"
	"go/token"
	"go/types"
	"strings"

	"golang.org/x/tools/go/ssa"
)

type callInfo struct {
	name    string // canonical callee name ("$dyn:<param>" for dynamic calls)
	fn      *ssa.Function
	sig     *types.Signature
	args    []sval // receiver first (static methods and invoke)
	argVals []ssa.Value
	pos     token.Pos
	instr   ssa.Instruction
	value   ssa.Value // result holder (nil for go/defer)
	guard   string    // effect happens only if guard ("" = always)
	closure *closureRec
	kind    string // "call", "defer", "go"
}

// calleeName computes the canonical name of the callee of a call.
func (vc *VC) calleeName(c *ssa.CallCommon) (string, *ssa.Function) {
	if c.IsInvoke() {
		rt := types.Unalias(c.Value.Type())
		name := ""
		if n, ok := rt.(*types.Named); ok {
			pk := ""
			if n.Obj().Pkg() != nil {
				pk = n.Obj().Pkg().Path() + "."
			}
			name = pk + "(" + n.Obj().Name() + ")." + c.Method.Name()
		} else {
			name = "(" + typeStr(rt) + ")." + c.Method.Name()
		}
		if name == "(error).Error" {
			name = "builtin.(error).Error"
		}
		return name, nil
	}
	if fn := c.StaticCallee(); fn != nil {
		return CanonName(fn), fn
	}
	switch v := c.Value.(type) {
	case *ssa.Parameter:
		return "$dyn:" + v.Name(), nil
	case *ssa.FreeVar:
		return "$dyn:" + v.Name(), nil
	case *ssa.UnOp:
		// load of a captured/free variable cell
		if fv, ok := v.X.(*ssa.FreeVar); ok {
			return "$dyn:" + fv.Name(), nil
		}
		if fa, ok := v.X.(*ssa.FieldAddr); ok {
			st := deref(fa.X.Type())
			if _, ok := structOf(st); ok {
				return "$dyn:" + shortType(st) + "." + recFieldName(st, fa.Field), nil
			}
		}
	case *ssa.Call:
		n, _ := vc.calleeName(v.Common())
		return "$dyn:result:" + n, nil
	case *ssa.Extract:
		if c2, ok := v.Tuple.(*ssa.Call); ok {
			n, _ := vc.calleeName(c2.Common())
			return fmt.Sprintf("$dyn:result.%d:%s", v.Index, n), nil
		}
	}
	return "$dyn", nil
}

func matchCallee(canon, pat string) bool {
	if canon == pat {
		return true
	}
	if strings.HasPrefix(canon, "$dyn:") {
		// calls through function values match only by their origin: "execute" (a parameter), or
		// "result.2:(Output).WrapWriter" (the third result of a call of WrapWriter)
		if canon == "$dyn:"+pat {
			return true
		}
		rest := canon[5:]
		if i := strings.Index(rest, ":"); i >= 0 && strings.HasPrefix(rest, "result") {
			if j := strings.Index(pat, ":"); j >= 0 && pat[:j] == rest[:i] {
				return matchCallee(rest[i+1:], pat[j+1:])
			}
		}
		return false
	}
	if strings.HasSuffix(canon, pat) {
		c := canon[len(canon)-len(pat)-1]
		return c == '.' || c == '/' || c == ':'
	}
	return false
}

func (vc *VC) call(ins *ssa.Call) {
	c := ins.Common()
	if b, ok := c.Value.(*ssa.Builtin); ok {
		vc.builtin(ins, b)
		return
	}
	if phi, ok := c.Value.(*ssa.Phi); ok && !c.IsInvoke() {
		if fns := phiFuncs(phi); fns != nil {
			vc.multiCall(ins, phi, fns)
			return
		}
	}
	// a method call on a guarded value (e.g. vars.om.Set) is a use of it
	if !c.IsInvoke() && len(c.Args) > 0 && c.StaticCallee() != nil && c.Signature().Recv() != nil {
		vc.guardedUse(c.Args[0], ins.Pos(), "method-call")
	}
	if fn := vc.inlineTarget(c); fn != nil {
		vc.inlineCall(ins, fn)
		return
	}
	ci := vc.mkCallInfo(c, ins, ins, "call")
	res := vc.applyCall(ci)
	vc.bindResults(ins, res)
}

// phiFuncs: the call target is a phi whose edges are all function constants (a function-valued switch).
func phiFuncs(phi *ssa.Phi) []*ssa.Function {
	var out []*ssa.Function
	for _, e := range phi.Edges {
		for {
			ct, ok := e.(*ssa.ChangeType)
			if !ok {
				break
			}
			e = ct.X
		}
		switch f := e.(type) {
		case *ssa.Function:
			out = append(out, f)
		case *ssa.Const:
			if f.Value != nil {
				return nil
			}
		default:
			return nil
		}
	}
	return out
}

// multiCall: a call through a function-valued phi; each candidate's contract applies when it is the target.
func (vc *VC) multiCall(ins *ssa.Call, phi *ssa.Phi, fns []*ssa.Function) {
	c := ins.Common()
	target := vc.val(phi)
	vc.obligeSafety("nil-func-call", fmt.Sprintf("(not (= %s 0))", target), ins.Pos())
	var results []string
	rs := c.Signature().Results()
	for i := 0; i < rs.Len(); i++ {
		results = append(results, vc.freshConst("res_dyn", sortOf(rs.At(i).Type())))
	}
	seen := map[*ssa.Function]bool{}
	for _, f := range fns {
		if seen[f] {
			continue
		}
		seen[f] = true
		sub := *c
		sub.Value = f
		ci := vc.mkCallInfo(&sub, ins, ins, "call")
		ci.guard = fmt.Sprintf("(= %s %s)", target, vc.val(f))
		res := vc.applyCall(ci)
		for i := range res {
			if i < len(results) {
				vc.assume(fmt.Sprintf("(=> %s (= %s %s))", ci.guard, results[i], res[i]))
			}
		}
	}
	vc.bindResults(ins, results)
}

func (vc *VC) bindResults(v ssa.Value, res []string) {
	if _, ok := v.Type().(*types.Tuple); ok {
		vc.vals[v] = "tuple"
		vc.tuples[v] = res
		return
	}
	if len(res) == 1 {
		vc.vals[v] = res[0]
	}
}

func (vc *VC) mkCallInfo(c *ssa.CallCommon, ins ssa.Instruction, value ssa.Value, kind string) *callInfo {
	name, fn := vc.calleeName(c)
	ci := &callInfo{name: name, fn: fn, sig: c.Signature(), pos: ins.Pos(), instr: ins, value: value, kind: kind}
	if c.IsInvoke() {
		ci.args = append(ci.args, sval{term: vc.val(c.Value), typ: c.Value.Type()})
		ci.argVals = append(ci.argVals, c.Value)
	}
	for _, a := range c.Args {
		ci.args = append(ci.args, sval{term: vc.val(a), typ: a.Type()})
		ci.argVals = append(ci.argVals, a)
	}
	if !c.IsInvoke() {
		// closure made in this function?
		if mc, ok := c.Value.(*ssa.MakeClosure); ok {
			ci.fn = mc.Fn.(*ssa.Function)
			ci.name = CanonName(ci.fn)
			for _, cr := range vc.closures {
				if cr.mc == mc {
					ci.closure = cr
				}
			}
		}
	}
	return ci
}

// paramNames gives the names contracts may use for the i-th argument.
func (ci *callInfo) bindArgs(env *specEnv) {
	if ci.fn != nil {
		env.owner = ci.fn
	} else if ci.closure != nil {
		env.owner = ci.closure.fn
	}
	var names []string
	if ci.fn != nil && len(ci.fn.Params) > 0 {
		for _, p := range ci.fn.Params {
			names = append(names, p.Name())
		}
	} else if ci.sig != nil {
		if r := ci.sig.Recv(); r != nil {
			n := r.Name()
			if n == "" || n == "_" {
				n = "recv"
			}
			names = append(names, n)
		}
		for i := 0; i < ci.sig.Params().Len(); i++ {
			names = append(names, ci.sig.Params().At(i).Name())
		}
	}
	perm := argPerm(ci.fn)
	for i, a := range ci.args {
		if j, ok := perm[i]; ok && j < len(ci.args) {
			env.vars[fmt.Sprintf("arg%d", i)] = ci.args[j]
		} else {
			env.vars[fmt.Sprintf("arg%d", i)] = a
		}
		if i < len(names) && names[i] != "" && names[i] != "_" {
			env.vars[names[i]] = a
		}
	}
	if len(ci.args) > 0 {
		env.vars["recv"] = ci.args[0]
	}
	if ci.closure != nil {
		for i, fv := range ci.closure.fn.FreeVars {
			env.freeCells[fv.Name()] = sval{term: ci.closure.vals[i], typ: fv.Type()}
		}
	}
}

func (vc *VC) bindCallResults(env *specEnv, ci *callInfo, res []string) {
	if ci.sig == nil {
		return
	}
	rs := ci.sig.Results()
	for i := 0; i < rs.Len() && i < len(res); i++ {
		sv := sval{term: res[i], typ: rs.At(i).Type()}
		env.vars[fmt.Sprintf("result.%d", i)] = sv
		if i == 0 {
			env.vars["result"] = sv
		}
		if n := rs.At(i).Name(); n != "" && n != "_" {
			if _, exists := env.vars[n]; !exists {
				env.vars[n] = sv
			}
		}
	}
}

// calleeEnv: a clean environment for a callee's contract, binding only its own parameter names.
func (vc *VC) calleeEnv(ci *callInfo, fc *FuncContract, st, old *state) *specEnv {
	pk := fc.Pkg
	if pk == "" && ci.fn != nil {
		pk = FuncPkgPath(ci.fn)
	}
	env := vc.newEnv(st, old, pk)
	ci.bindArgs(env)
	return env
}

// ghostNamesIn collects ghost state names mentioned by an expression.
func (vc *VC) ghostNamesIn(e Expr, out map[string]bool) {
	switch e := e.(type) {
	case *EIdent:
		if gd, ok := vc.C.Ghosts[e.Name]; ok && gd.Kind == "var" {
			out[e.Name] = true
		}
	case *EUnary:
		vc.ghostNamesIn(e.X, out)
	case *EBinary:
		vc.ghostNamesIn(e.X, out)
		vc.ghostNamesIn(e.Y, out)
	case *ECall:
		if gd, ok := vc.C.Ghosts[e.Fun]; ok && gd.Kind == "fact" {
			out[e.Fun] = true
		}
		if e.Fun == "iscopy" {
			out["iscopy$"] = true
		}
		if e.Fun == "unchanged" {
			return // says the table is NOT touched
		}
		if e.Fun == "old" {
			return
		}
		for _, a := range e.Args {
			vc.ghostNamesIn(a, out)
		}
	case *EField:
		vc.ghostNamesIn(e.X, out)
	case *EIndex:
		vc.ghostNamesIn(e.X, out)
		vc.ghostNamesIn(e.I, out)
	case *EQuant:
		vc.ghostNamesIn(e.Body, out)
	case *ECond:
		vc.ghostNamesIn(e.C, out)
		vc.ghostNamesIn(e.A, out)
		vc.ghostNamesIn(e.B, out)
	}
}

func hasFuncParam(sig *types.Signature) bool {
	if sig == nil {
		return false
	}
	for i := 0; i < sig.Params().Len(); i++ {
		if _, ok := sig.Params().At(i).Type().Underlying().(*types.Signature); ok {
			return true
		}
	}
	return false
}

// callEffect derives the post-state of a call from the callee's contract (or the absence of one).
func (vc *VC) callEffect(ci *callInfo, fc *FuncContract) {
	pre := vc.st
	post := pre.derive()
	post.guard = ci.guard
	post.havocKeys = map[string]bool{}
	if fc != nil {
		// ghost facts promised by the callee become true during the call: weaken them
		gn := map[string]bool{}
		for _, e := range fc.Ensures {
			vc.ghostNamesIn(e.Expr, gn)
		}
		for g := range gn {
			if g != "iscopy$" {
				post.havocKeys["G:"+g] = true
			}
		}
		if gn["iscopy$"] && ci.sig != nil {
			for i := 0; i < ci.sig.Results().Len(); i++ {
				post.havocKeys[vc.iscopyKey(ci.sig.Results().At(i).Type())] = true
			}
		}
	}
	if fc != nil && fc.Blocks {
		// the caller is suspended: other goroutines make progress, every shared ghost component may change
		post.havocGhst = true
	}
	ak := vc.allocKey()
	inferred := (fc == nil || !fc.HasMod) && ci.fn != nil && vc.P.InRepo(FuncPkgPath(ci.fn)) && vc.inferPure(ci.fn)
	switch {
	case inferred:
		post.havocKeys[ak] = true
	case fc != nil && fc.Pure:
		if fc.Allocates {
			post.havocKeys[ak] = true
		}
		if len(post.havocKeys) == 0 && !post.havocGhst {
			return
		}
	case fc != nil && fc.HasMod:
		post.havocKeys[ak] = true
		for _, m := range fc.Modifies {
			if m == "*" {
				post.havocHeap, post.havocGhst, post.havocLocal = true, true, true
			} else if strings.HasPrefix(m, "reachable ") {
				// only what is reachable from the argument changes. When the argument is the address of a
				// local variable of this function (zero-valued so far), that is the local itself plus fresh objects.
				if !vc.reachableLocalHavoc(ci, fc, strings.TrimSpace(m[10:]), post, pre) {
					post.havocHeap = true
					post.keepPats = fc.Preserves
				}
			} else if m == "heap" {
				post.havocHeap = true
				post.keepPats = fc.Preserves
			} else if strings.HasPrefix(m, "map:") {
				// "map:p": only the entries of the map passed as p change
				env := vc.calleeEnv(ci, fc, pre, pre)
				v, isVar := env.vars[m[4:]]
				mt, isMap := (*types.Map)(nil), false
				if isVar && v.typ != nil {
					mt, isMap = v.typ.Underlying().(*types.Map)
				}
				if !isMap {
					post.havocHeap = true
					post.keepPats = fc.Preserves
					continue
				}
				d, vk := vc.mapKeys(mt)
				for _, key := range []string{d, vk} {
					old := pre.get(key)
					if cur, set := post.vals[key]; set {
						old = cur
					}
					fresh := vc.freshConst("mapmod", sortOfKey(vc.keyMeta(key)))
					nw := vc.storeT(old, v.term, fresh)
					if ci.guard != "" {
						nw = fmt.Sprintf("(ite %s %s %s)", ci.guard, nw, old)
					}
					post.set(key, nw)
				}
			} else if key, obj, ok := vc.resolveObjMod(m, vc.calleeEnv(ci, fc, pre, pre)); ok {
				// only this object's field changes
				old := pre.get(key)
				if cur, set := post.vals[key]; set {
					old = cur
				}
				fresh := vc.freshConst("objmod", sortOfKey(vc.keyMeta(key)))
				nw := vc.storeT(old, obj, fresh)
				if ci.guard != "" {
					nw = fmt.Sprintf("(ite %s %s %s)", ci.guard, nw, old)
				}
				post.set(key, nw)
			} else {
				post.havocPats = append(post.havocPats, m)
			}
		}
	case fc != nil:
		// contract without frame: heap unknown afterwards
		post.havocKeys[ak] = true
		post.havocHeap = true
		if !fc.External && !fc.Trusted {
			post.havocGhst = true
			post.havocLocal = true
		}
	default:
		post.havocKeys[ak] = true
		post.havocHeap = true
		pk := ""
		if ci.fn != nil {
			pk = FuncPkgPath(ci.fn)
		}
		if ci.fn == nil || vc.P.InRepo(pk) || hasFuncParam(ci.sig) {
			post.havocGhst = true
			post.havocLocal = true
		}
	}
	vc.st = post
}

// errorsAsFacts: errors.As(err, &x) returning true leaves a non-nil value of x's type in x (Go library
// semantics, assumed). The target is recognised when it is the address of a pointer-typed variable.
func (vc *VC) errorsAsFacts(ci *callInfo, res []string) {
	if len(ci.argVals) < 2 || len(res) < 1 {
		return
	}
	mi, ok := ci.argVals[1].(*ssa.MakeInterface)
	if !ok {
		return
	}
	pt, ok := mi.X.Type().Underlying().(*types.Pointer)
	if !ok {
		return
	}
	if _, isPtr := pt.Elem().Underlying().(*types.Pointer); !isPtr {
		return
	}
	k := vc.cellKey(pt.Elem())
	vc.assume(fmt.Sprintf("(=> %s (not (= (select %s %s) 0)))", res[0], vc.st.get(k), vc.val(mi.X)))
}

// reachableLocalHavoc implements "modifies reachable <param>" for an argument that is &local.
func (vc *VC) reachableLocalHavoc(ci *callInfo, fc *FuncContract, param string, post, pre *state) bool {
	env := vc.calleeEnv(ci, fc, pre, pre)
	v, ok := env.vars[param]
	if !ok {
		return false
	}
	idx := -1
	for i, a := range ci.args {
		if a.term == v.term {
			idx = i
		}
	}
	if idx < 0 || idx >= len(ci.argVals) {
		return false
	}
	av := ci.argVals[idx]
	if mi, isMI := av.(*ssa.MakeInterface); isMI {
		av = mi.X
	}
	al, isAlloc := av.(*ssa.Alloc)
	if !isAlloc {
		return false
	}
	ref := vc.val(al)
	for _, key := range vc.zeroKeys(deref(al.Type())) {
		old := pre.get(key)
		if cur, set := post.vals[key]; set {
			old = cur
		}
		fresh := vc.freshConst("reach", sortOfKey(vc.keyMeta(key)))
		nw := vc.storeT(old, ref, fresh)
		if ci.guard != "" {
			nw = fmt.Sprintf("(ite %s %s %s)", ci.guard, nw, old)
		}
		post.set(key, nw)
	}
	vc.usedContracts["frame rule: a local passed by address to "+ci.name+" holds no pointers to older objects (it is zero-valued)"] = true
	return true
}

// tryTrBool translates a clause; ok is false when it mentions identifiers unknown in this environment.
func (vc *VC) tryTrBool(e Expr, env *specEnv, c *Clause) (g string, ok bool) {
	defer func() {
		if r := recover(); r != nil {
			if ge, isGen := r.(genErr); isGen && strings.Contains(string(ge), "unknown identifier") {
				g, ok = "", false
				return
			}
			panic(r)
		}
	}()
	return vc.trBool(e, env, c), true
}

// ordinalOf: the 1-based ordinal of an operation among the operations of the same name in the function, in
// source (block index, instruction) order, so that "site f#2" does not depend on the processing order.
func (vc *VC) ordinalOf(ins ssa.Instruction, name string) int {
	if vc.staticOrd == nil {
		vc.staticOrd = map[ordKey]int{}
		counts := map[string]int{}
		vc.walkInstrs(vc.fn, "", 0, nil, func(x ssa.Instruction, path string) {
			var n string
			switch x := x.(type) {
			case ssa.CallInstruction:
				c := x.Common()
				if bi, isB := c.Value.(*ssa.Builtin); isB {
					if bi.Name() == "append" || bi.Name() == "delete" {
						counts[bi.Name()]++
						vc.staticOrd[ordKey{x, path}] = counts[bi.Name()]
					}
					return
				}
				n, _ = vc.calleeName(c)
				if mc, ok := c.Value.(*ssa.MakeClosure); ok {
					n = CanonName(mc.Fn.(*ssa.Function))
				}
				if _, isDefer := x.(*ssa.Defer); isDefer {
					n = "defer:" + n
				}
			case *ssa.UnOp:
				if x.Op != token.ARROW {
					return
				}
				n = "recv"
			case *ssa.Send:
				n = "send"
			case *ssa.MapUpdate:
				n = "mapstore"
			case *ssa.Store:
				n = storeSiteName(x)
				if n == "" {
					return
				}
			default:
				return
			}
			counts[n]++
			vc.staticOrd[ordKey{x, path}] = counts[n]
		})
	}
	if o, ok := vc.staticOrd[ordKey{ins, vc.inlPath()}]; ok {
		return o
	}
	vc.callOrd[name]++
	return vc.callOrd[name]
}

type ordKey struct {
	ins  ssa.Instruction
	path string
}

func sortOfKey(m keyMeta) string {
	// "(Array Int X)" -> X
	s := strings.TrimPrefix(m.Sort, "(Array Int ")
	return strings.TrimSuffix(s, ")")
}

// callFrameCheck: when the function under verification declares a frame, every callee effect must lie inside it.
func (vc *VC) callFrameCheck(ci *callInfo, fc *FuncContract) {
	if vc.fc == nil || !vc.fc.HasMod || vc.fc.Sweep || vc.fc.TrustedFrame {
		return
	}
	has := func(m string) bool {
		for _, x := range vc.fc.Modifies {
			if x == m || x == "*" {
				return true
			}
			if x == "heap" {
				if _, isGhost := vc.C.Ghosts[m]; !isGhost {
					return true
				}
			}
		}
		for _, u := range vc.fc.Updates {
			if u.Ghost.Name == m {
				return true
			}
		}
		return false
	}
	var bad []string
	inferred := (fc == nil || !fc.HasMod) && ci.fn != nil && vc.P.InRepo(FuncPkgPath(ci.fn)) && vc.inferPure(ci.fn)
	switch {
	case inferred:
	case fc == nil:
		if !has("*") && !has("heap") {
			bad = append(bad, "callee "+ci.name+" has no contract (heap unknown afterwards)")
		}
	case fc.Pure:
	case fc.HasMod:
		env := vc.calleeEnv(ci, fc, vc.st, vc.st)
		for _, m := range fc.Modifies {
			if has(m) {
				continue
			}
			if strings.HasPrefix(m, "map:") {
				if v, isVar := env.vars[m[4:]]; isVar && v.typ != nil {
					if _, isMap := v.typ.Underlying().(*types.Map); isMap {
						// writing into a map is inside the caller's frame when the map was made by the caller
						vc.oblige("frame", "call-modifies-map/"+shortName(ci.name), fmt.Sprintf("(> %s %s)", v.term, vc.entryAlloc), vc.fc.allTags(), ci.pos, nil)
						continue
					}
				}
				bad = append(bad, "callee "+ci.name+" modifies "+m)
				continue
			}
			if key, obj, ok := vc.resolveObjMod(m, env); ok {
				// allowed if the caller may modify the same object's field, the whole component, or the object is fresh
				if vc.modAllows(vc.fc, key) {
					continue
				}
				goal := fmt.Sprintf("(> %s %s)", obj, vc.entryAlloc)
				for _, om := range vc.objMods() {
					if om.key == key {
						goal = fmt.Sprintf("(or %s (= %s %s))", goal, obj, om.obj)
					}
				}
				vc.oblige("frame", "call-modifies-object/"+shortName(ci.name), goal, vc.fc.allTags(), ci.pos, nil)
				continue
			}
			bad = append(bad, "callee "+ci.name+" modifies "+m)
		}
	default:
		if !has("*") && !has("heap") {
			bad = append(bad, "callee "+ci.name+" declares no frame (heap unknown afterwards)")
		}
	}
	if fc != nil {
		for _, u := range fc.Updates {
			if u.Ghost.Name == "held" {
				continue // the lock set is checked for balance at every return instead (lock-balance obligation)
			}
			if !has(u.Ghost.Name) {
				bad = append(bad, "callee "+ci.name+" updates "+u.Ghost.Name)
			}
		}
		// thread-local ghost variables the callee talks about must be accounted for by the caller's own contract
		gn := map[string]bool{}
		for _, e := range fc.Ensures {
			vc.ghostNamesIn(e.Expr, gn)
		}
		mine := map[string]bool{}
		for _, e := range vc.fc.Ensures {
			vc.ghostNamesIn(e.Expr, mine)
		}
		for g := range gn {
			if gd, ok := vc.C.Ghosts[g]; ok && gd.Kind == "var" && !gd.Scratch && !mine[g] && !has(g) {
				bad = append(bad, "callee "+ci.name+" may change ghost variable "+g+", which the contract of "+shortName(vc.Name)+" does not mention")
			}
		}
	}
	for _, b := range bad {
		o := vc.oblige("frame", "call/"+shortName(ci.name), "false", vc.fc.allTags(), ci.pos, nil)
		o.Detail["why"] = b
	}
}

// applyCall encodes one call: obligations for the callee's pre-condition and site clauses, the state
// change, and the assumed post-condition. It returns the result terms.
func (vc *VC) applyCall(ci *callInfo) []string {
	ord := vc.ordinalOf(ci.instr, ci.name)
	fc := vc.C.Funcs[ci.name]
	if fc == nil && ci.fn != nil && ci.fn.Origin() != nil {
		fc = vc.C.Funcs[CanonName(ci.fn.Origin())]
	}
	if fc == nil {
		fc = vc.fnspecFor(ci.name)
	}
	if fc != nil && (fc.External || fc.Trusted) {
		vc.usedContracts[ci.name] = true
	}
	pre := vc.st
	argMap := map[string]sval{}
	perm := argPerm(ci.fn)
	for i, a := range ci.args {
		if j, ok := perm[i]; ok && j < len(ci.args) {
			a = ci.args[j]
		}
		argMap[fmt.Sprintf("arg%d", i)] = a
	}
	if len(ci.args) > 0 {
		argMap["recv"] = ci.args[0]
	}
	if ci.kind == "call" || ci.kind == "go" || ci.kind == "defer-reg" {
		vc.siteClausesCI(ci, ord, "site-requires", argMap, nil)
	}
	if ci.kind == "defer-reg" {
		vc.siteClausesCI(ci, ord, "site-post", argMap, nil)
		return nil
	}
	if fc != nil {
		env := vc.calleeEnv(ci, fc, pre, pre)
		for _, r := range fc.Requires {
			g := vc.trBool(r.Expr, env, r)
			if ci.guard != "" {
				g = fmt.Sprintf("(=> %s %s)", ci.guard, g)
			}
			o := vc.oblige("call-pre", fmt.Sprintf("%s#%d/requires.%d%s", shortName(ci.name), ord, r.Index, tagSuffix(r.Tags)), g, mergeTags(r.Tags, vc.tagsOfFunc()), ci.pos, r)
			o.Detail["callee"] = ci.name
		}
	} else {
		vc.abstracted("call without contract: " + ci.name)
	}
	if ci.kind != "defer-reg" {
		vc.callFrameCheck(ci, fc)
	}
	vc.callEffect(ci, fc)
	if ci.instr != nil && ci.kind != "defer-reg" {
		vc.havocSharedLocals(ci.instr)
	}
	// results
	var res []string
	if ci.sig != nil {
		rs := ci.sig.Results()
		for i := 0; i < rs.Len(); i++ {
			c := vc.freshConst("res_"+shortName(ci.name), sortOf(rs.At(i).Type()))
			nonnil := true
			if fc != nil && (fc.Nilable["result"] && i == 0 || fc.Nilable[fmt.Sprintf("result.%d", i)]) {
				nonnil = false
			}
			if fc == nil && ci.fn == nil {
				nonnil = false
			}
			vc.typeFacts(c, rs.At(i).Type(), nonnil)
			res = append(res, c)
		}
	}
	if fc != nil && fc.Deterministic && ci.sig != nil {
		var sorts, args []string
		for _, a := range ci.args {
			if a.isBool() {
				sorts = append(sorts, "Bool")
			} else {
				sorts = append(sorts, "Int")
			}
			args = append(args, a.term)
		}
		for i, r := range res {
			f := vc.declareFun(fmt.Sprintf("det!%s!%d", shortName(ci.name), i), sorts, sortOf(ci.sig.Results().At(i).Type()))
			t := f
			if len(args) > 0 {
				t = fmt.Sprintf("(%s %s)", f, strings.Join(args, " "))
			}
			g := fmt.Sprintf("(= %s %s)", r, t)
			if ci.guard != "" {
				g = fmt.Sprintf("(=> %s %s)", ci.guard, g)
			}
			vc.assume(g)
		}
	}
	if ci.name == "errors.As" || ci.name == vc.P.ModPath+"/errors.As" {
		vc.errorsAsFacts(ci, res)
	}
	if fc != nil && len(fc.Updates) > 0 {
		for _, u := range fc.Updates {
			env := vc.calleeEnv(ci, fc, vc.st, pre)
			vc.bindCallResults(env, ci, res)
			vc.ghostSet(u, env, ci.guard)
		}
	}
	if fc != nil {
		env := vc.calleeEnv(ci, fc, vc.st, pre)
		vc.bindCallResults(env, ci, res)
		for _, e := range fc.Ensures {
			g, ok := vc.tryTrBool(e.Expr, env, e)
			if !ok {
				continue // the clause speaks about the callee's local variables: internal to its own proof
			}
			if ci.guard != "" {
				g = fmt.Sprintf("(=> %s %s)", ci.guard, g)
			}
			vc.assume(g)
		}
	}
	if ci.kind == "call" || ci.kind == "deferred-run" {
		post := map[string]sval{}
		for k, v := range argMap {
			post[k] = v
		}
		env := vc.newEnv(vc.st, pre, "")
		vc.bindCallResults(env, ci, res)
		for k, v := range env.vars {
			if strings.HasPrefix(k, "result") {
				post[k] = v
			}
		}
		vc.closureFacts()
		vc.siteClausesCI(ci, ord, "site-post", post, pre)
	}
	return res
}

func shortName(canon string) string {
	if i := strings.LastIndex(canon, "/"); i >= 0 {
		canon = canon[i+1:]
	}
	return canon
}

func mergeTags(a, b []string) []string {
	if len(a) > 0 {
		return a
	}
	return b
}

func (vc *VC) tagsOfFunc() []string {
	if vc.fc == nil {
		return nil
	}
	return vc.fc.allTags()
}

func (vc *VC) siteClausesCI(ci *callInfo, ord int, phase string, args map[string]sval, pre *state) bool {
	return vc.siteClausesAt(ci.name, ord, phase, args, ci.pos, pre, ci.guard)
}

func (vc *VC) siteClauses(name string, ord int, phase string, args map[string]sval, pos token.Pos) bool {
	return vc.siteClausesAt(name, ord, phase, args, pos, nil, "")
}

// siteClausesAt applies the site clauses of the current function that match this call.
// phase "site-requires": obligations before the call; "site-post": ghost updates then site-ensures obligations.
func (vc *VC) siteClausesAt(name string, ord int, phase string, args map[string]sval, pos token.Pos, pre *state, guard string) bool {
	if vc.fc == nil {
		return false
	}
	matched := false
	for _, c := range vc.fc.Sites {
		if !matchCallee(name, c.Site) || (c.SiteN != 0 && c.SiteN != ord) {
			continue
		}
		matched = true
		vc.siteUsed[c]++
		switch {
		case phase == "site-requires" && c.Kind == "site-requires":
			env := vc.envHere(vc.st)
			for k, v := range args {
				env.vars[k] = v
			}
			g := vc.trBool(c.Expr, env, c)
			if guard != "" {
				g = fmt.Sprintf("(=> %s %s)", guard, g)
			}
			vc.oblige("site", fmt.Sprintf("%s#%d/requires.%d%s", c.Site, ord, c.Index, tagSuffix(c.Tags)), g, c.Tags, pos, c)
		case phase == "site-post" && c.Kind == "site-ghost":
			env := vc.envHere(vc.st)
			if pre != nil {
				env.old = pre
			}
			for k, v := range args {
				env.vars[k] = v
			}
			vc.ghostSet(c, env, guard)
		}
	}
	if phase == "site-post" {
		for _, c := range vc.fc.Sites {
			if !matchCallee(name, c.Site) || (c.SiteN != 0 && c.SiteN != ord) || c.Kind != "site-ensures" {
				continue
			}
			env := vc.envHere(vc.st)
			if pre != nil {
				env.old = pre
			}
			for k, v := range args {
				env.vars[k] = v
			}
			g := vc.trBool(c.Expr, env, c)
			if guard != "" {
				g = fmt.Sprintf("(=> %s %s)", guard, g)
			}
			vc.oblige("site", fmt.Sprintf("%s#%d/ensures.%d%s", c.Site, ord, c.Index, tagSuffix(c.Tags)), g, mergeTags(c.Tags, vc.tagsOfFunc()), pos, c)
			vc.assume(g) // assert-then-assume: later obligations may use the checked fact
		}
	}
	return matched
}

// ghostSet performs a ghost assignment in the current state.
func (vc *VC) ghostSet(c *Clause, env *specEnv, guard string) {
	gs := c.Ghost
	key, gd, ok := vc.ghostKey(gs.Name)
	if !ok {
		vc.fail("%s:%d: ghost statement on undeclared ghost %q", c.File, c.Line, gs.Name)
	}
	cond := "true"
	if gs.Cond != nil {
		cond = vc.trBool(gs.Cond, env, c)
	}
	if guard != "" {
		cond = and(guard, cond)
	}
	old := vc.st.get(key)
	var nw string
	if gd != nil && (gd.Kind == "fact" || gd.Kind == "table") {
		if len(gs.Args) != len(gd.Params) {
			vc.fail("%s:%d: ghost %s takes %d arguments", c.File, c.Line, gs.Name, len(gd.Params))
		}
		var args []string
		for _, a := range gs.Args {
			args = append(args, vc.tr(a, env, c).term)
		}
		v := "true"
		if gs.Val != nil {
			v = vc.tr(gs.Val, env, c).term
		}
		nw = nestedStore(old, args, v)
	} else {
		nw = vc.tr(gs.Val, env, c).term
	}
	if cond != "true" {
		nw = fmt.Sprintf("(ite %s %s %s)", cond, nw, old)
	}
	vc.st = vc.st.derive()
	vc.st.set(key, nw)
}

func nestedSelect(arr string, idx []string) string {
	for _, i := range idx {
		arr = fmt.Sprintf("(select %s %s)", arr, i)
	}
	return arr
}

func nestedStore(arr string, idx []string, v string) string {
	if len(idx) == 0 {
		return v
	}
	inner := nestedStore(fmt.Sprintf("(select %s %s)", arr, idx[0]), idx[1:], v)
	return fmt.Sprintf("(store %s %s %s)", arr, idx[0], inner)
}

// ---- builtins -------------------------------------------------------------------------------

func (vc *VC) builtin(ins *ssa.Call, b *ssa.Builtin) {
	args := ins.Call.Args
	if vc.fc != nil {
		for _, c := range vc.fc.Sites {
			if c.Kind == "site-ghost" && c.Site == b.Name() {
				vc.bindingFailure(c, "ghost assignments are not applied at calls of the builtin "+b.Name()+" (use a requires clause, or a real call site)")
			}
		}
	}
	switch b.Name() {
	case "len":
		if _, isMap := args[0].Type().Underlying().(*types.Map); isMap {
			vc.guardedUse(args[0], ins.Pos(), "map-len")
		}
		x := vc.val(args[0])
		switch t := args[0].Type().Underlying().(type) {
		case *types.Slice:
			vc.define(ins, fmt.Sprintf("(sl_len %s)", x))
		case *types.Basic:
			vc.define(ins, fmt.Sprintf("(slen %s)", x))
		case *types.Map:
			d, _ := vc.mapKeys(t)
			vc.define(ins, fmt.Sprintf("(maplen (select %s %s))", vc.st.get(d), x))
		case *types.Array:
			vc.define(ins, fmt.Sprint(t.Len()))
		case *types.Pointer:
			vc.define(ins, fmt.Sprint(t.Elem().Underlying().(*types.Array).Len()))
		default:
			n := vc.havocVal(ins)
			vc.assume(fmt.Sprintf("(>= %s 0)", n))
		}
	case "cap":
		x := vc.val(args[0])
		if _, ok := args[0].Type().Underlying().(*types.Slice); ok {
			vc.define(ins, fmt.Sprintf("(sl_cap %s)", x))
		} else {
			n := vc.havocVal(ins)
			vc.assume(fmt.Sprintf("(>= %s 0)", n))
		}
	case "append":
		vc.appendBuiltin(ins)
	case "copy":
		// copy(dst, src): contents of dst's array change
		if sl, ok := args[0].Type().Underlying().(*types.Slice); ok {
			k := vc.elemKey(sl.Elem())
			old := vc.st.get(k)
			vc.st = vc.st.derive()
			row := vc.freshConst("copyrow", "(Array Int "+sortOf(sl.Elem())+")")
			vc.st.set(k, vc.storeT(old, fmt.Sprintf("(sl_arr %s)", vc.val(args[0])), row))
		}
		n := vc.havocVal(ins)
		vc.assume(fmt.Sprintf("(>= %s 0)", n))
	case "delete":
		vc.guardedUse(args[0], ins.Pos(), "map-delete")
		if m, ok := args[0].Type().Underlying().(*types.Map); ok {
			d, _ := vc.mapKeys(m)
			x, k := vc.val(args[0]), vc.val(args[1])
			od := vc.st.get(d)
			vc.st = vc.st.derive()
			vc.st.set(d, vc.storeT(od, x, vc.storeT(fmt.Sprintf("(select %s %s)", od, x), k, "false")))
		}
	case "print", "println":
	case "min", "max":
		x, y := vc.val(args[0]), vc.val(args[1])
		if len(args) != 2 || !isInteger(args[0].Type()) {
			vc.havocVal(ins)
			return
		}
		if b.Name() == "min" {
			vc.define(ins, fmt.Sprintf("(ite (<= %s %s) %s %s)", x, y, x, y))
		} else {
			vc.define(ins, fmt.Sprintf("(ite (>= %s %s) %s %s)", x, y, x, y))
		}
	case "ssa:wrapnilchk":
		vc.define(ins, vc.val(args[0]))
	case "close":
		vc.unmodelledConc("close", ins.Pos())
	case "clear":
		vc.guardedUse(args[0], ins.Pos(), "map-clear")
		vc.havocAll(false)
	default:
		vc.abstracted("builtin " + b.Name())
		if _, ok := ins.Type().(*types.Tuple); !ok {
			vc.havocVal(ins)
		}
	}
}

func (vc *VC) appendBuiltin(ins *ssa.Call) {
	args := ins.Call.Args
	if vc.hasSite("append", vc.ordinalOf(ins, "append")) {
		am := map[string]sval{"arg0": {term: vc.val(args[0]), typ: args[0].Type()}, "arg1": {term: vc.val(args[1]), typ: args[1].Type()}}
		vc.siteClauses("append", vc.ordinalOf(ins, "append"), "site-requires", am, ins.Pos())
	}
	s, t := vc.val(args[0]), vc.val(args[1])
	st, ok := ins.Type().Underlying().(*types.Slice)
	if !ok {
		vc.havocVal(ins)
		return
	}
	et := st.Elem()
	var tl string
	var tIsString bool
	if isString(args[1].Type()) {
		tl = fmt.Sprintf("(slen %s)", t)
		tIsString = true
	} else {
		tl = fmt.Sprintf("(sl_len %s)", t)
	}
	// frame: when its first argument has spare capacity, append writes the new elements into THAT backing array
	// (whoever else holds a slice of it sees them). A function with a frame may do so only if the array is its own
	// (allocated in this call) or the frame covers the elements; otherwise the slice must be full (or nil).
	if vc.fc != nil && vc.fc.HasMod && !vc.fc.Sweep && !vc.fc.TrustedFrame {
		if _, isStruct := structOf(et); !isStruct && !vc.modAllows(vc.fc, vc.elemKey(et)) {
			goal := fmt.Sprintf("(or (= %s 0) (> (sl_arr %s) %s) (= (sl_len %s) (sl_cap %s)))", s, s, vc.entryAlloc, s, s)
			vc.oblige("frame", "append-in-place", goal, vc.fc.allTags(), ins.Pos(), nil)
		}
	}
	ak := vc.allocKey()
	oldA := vc.st.get(ak)
	arr := vc.freshConst("apparr", "Int")
	vc.assert(fmt.Sprintf("(= %s (+ %s 1))", arr, oldA))
	n := vc.define(ins, "")
	vc.assert(fmt.Sprintf("(and (= (sl_arr %s) %s) (= (sl_off %s) 0) (= (sl_len %s) (+ (sl_len %s) %s)) (>= (sl_cap %s) (sl_len %s)))", n, arr, n, n, s, tl, n, n))
	vc.assert(fmt.Sprintf("(=> (or (not (= %s 0)) (> %s 0)) (not (= %s 0)))", s, tl, n))
	vc.assert(fmt.Sprintf("(=> (and (= %s 0) (= %s 0)) (= %s 0))", s, tl, n))
	vc.st = vc.st.derive()
	vc.st.set(ak, arr)
	if _, isStruct := structOf(et); isStruct {
		vc.abstracted("append of struct elements")
		return
	}
	k := vc.elemKey(et)
	old := vc.st.prev.get(k)
	row := vc.freshConst("approw", "(Array Int "+sortOf(et)+")")
	es := sortOf(et)
	_ = es
	vc.assert(fmt.Sprintf("(forall ((i Int)) (! (=> (and (<= 0 i) (< i (sl_len %s))) (= (select %s i) (select (select %s (sl_arr %s)) (idx (sl_off %s) i)))) :pattern ((select %s i))))",
		s, row, old, s, s, row))
	if !tIsString {
		vc.assert(fmt.Sprintf("(forall ((i Int)) (! (=> (and (<= 0 i) (< i %s)) (= (select %s (+ (sl_len %s) i)) (select (select %s (sl_arr %s)) (idx (sl_off %s) i)))) :pattern ((select %s (+ (sl_len %s) i)))))",
			tl, row, s, old, t, t, row, s))
		// the common single-element case, instantiated explicitly
		vc.assert(fmt.Sprintf("(=> (>= %s 1) (= (select %s (sl_len %s)) (select (select %s (sl_arr %s)) (idx (sl_off %s) 0))))", tl, row, s, old, t, t))
	}
	vc.st.set(k, vc.storeT(old, arr, row))
}

// ---- closures ---------------------------------------------------------------------------------

func (vc *VC) makeClosure(ins *ssa.MakeClosure) {
	fn := ins.Fn.(*ssa.Function)
	fc := vc.C.Funcs[CanonName(fn)]
	// Pre-conditions of the closure that consist of monotone facts over captured variables are stable, so
	// they are checked where the closure is created (whoever calls it later may rely on them).
	if fc != nil {
		for _, rq := range fc.Requires {
			if !vc.onlyMonoFacts(rq.Expr) {
				vc.usedContracts["unchecked entry condition of closure "+shortName(CanonName(fn))+": "+rq.Text] = true
				continue
			}
			env := vc.newEnv(vc.st, vc.st, fc.Pkg)
			env.owner = fn
			for i, fv := range fn.FreeVars {
				env.freeCells[fv.Name()] = sval{term: vc.val(ins.Bindings[i]), typ: fv.Type()}
			}
			g := vc.trBool(rq.Expr, env, rq)
			vc.oblige("closure-pre", fmt.Sprintf("%s/requires.%d%s", shortName(CanonName(fn)), rq.Index, tagSuffix(rq.Tags)), g, mergeTags(rq.Tags, vc.tagsOfFunc()), ins.Pos(), rq)
		}
	}
	r := vc.newRef(ins)
	id := vc.funcID(fn)
	vc.assert(fmt.Sprintf("(= (clofn %s) %d)", r, id))
	cr := &closureRec{val: r, fn: fn, mc: ins}
	for i, b := range ins.Bindings {
		bv := vc.val(b)
		cr.vals = append(cr.vals, bv)
		f := vc.declareFun(fmt.Sprintf("clobind!%d", i), []string{"Int"}, "Int")
		vc.assert(fmt.Sprintf("(= (%s %s) %s)", f, r, bv))
		// value of the captured variable when the closure was made
		ct := deref(fn.FreeVars[i].Type())
		if _, isStruct := structOf(ct); !isStruct {
			cf := vc.captFun(fn, i)
			vc.assert(fmt.Sprintf("(= (%s %s) (select %s %s))", cf, r, vc.st.get(vc.cellKey(ct)), bv))
		}
	}
	vc.closures = append(vc.closures, cr)
	vc.captureStable(ins, fn, fc)
}

func (vc *VC) captFun(fn *ssa.Function, i int) string {
	res := sortOf(deref(fn.FreeVars[i].Type()))
	return vc.declareFun(fmt.Sprintf("capt!%s!%s", shortName(CanonName(fn)), fn.FreeVars[i].Name()), []string{"Int"}, res)
}

// captureStable: the closure axiom "returnedNil(c) ==> facts(captured values)" needs the captured variables
// to keep the value they had when the closure was made: no store to their cells after the MakeClosure in
// the parent and none inside the closure.
func (vc *VC) captureStable(ins *ssa.MakeClosure, fn *ssa.Function, fc *FuncContract) {
	if fc == nil {
		return
	}
	need := false
	for _, e := range fc.Ensures {
		if vc.isNilImpliesMono(e.Expr) {
			need = true
		}
	}
	if !need {
		return
	}
	var bad []string
	for i, b := range ins.Bindings {
		al, ok := b.(*ssa.Alloc)
		if !ok {
			continue // a free variable of the parent itself: its stability is the parent's parent's concern
		}
		for _, ref := range *al.Referrers() {
			st, ok := ref.(*ssa.Store)
			if !ok || st.Addr != al {
				continue
			}
			if st.Block() == ins.Block() {
				after := false
				for _, x := range st.Block().Instrs {
					if x == ssa.Instruction(ins) {
						after = true
					}
					if x == ssa.Instruction(st) && after {
						bad = append(bad, fn.FreeVars[i].Name())
					}
				}
			} else if !st.Block().Dominates(ins.Block()) {
				bad = append(bad, fn.FreeVars[i].Name())
			}
		}
		for _, ref := range *fn.FreeVars[i].Referrers() {
			if st, ok := ref.(*ssa.Store); ok && st.Addr == fn.FreeVars[i] {
				bad = append(bad, fn.FreeVars[i].Name())
			}
		}
	}
	if len(bad) > 0 {
		o := vc.oblige("closure-capture-stable", shortName(CanonName(fn)), "false", vc.tagsOfFunc(), ins.Pos(), nil)
		o.Detail["why"] = "captured variable(s) reassigned after the closure was made: " + strings.Join(bad, ", ")
	}
}

// closureFacts: for every closure function F made in this function whose contract promises monotone facts
// on a nil return: forall c. clofn(c) = F && returnedNil(c) ==> facts(values captured by c). The facts are
// stable, so the implication holds whenever we look (it is re-stated for the current fact tables).
func (vc *VC) closureFacts() {
	key, _, ok := vc.ghostKey("returnedNil")
	if !ok {
		return
	}
	seen := map[*ssa.Function]bool{}
	// every closure function made anywhere in this function (block processing order is not execution order)
	var made []*closureRec
	for _, b := range vc.fn.Blocks {
		for _, ins := range b.Instrs {
			if mc, ok := ins.(*ssa.MakeClosure); ok {
				made = append(made, &closureRec{fn: mc.Fn.(*ssa.Function), mc: mc})
			}
		}
	}
	for _, cr := range made {
		if seen[cr.fn] {
			continue
		}
		seen[cr.fn] = true
		fc := vc.C.Funcs[CanonName(cr.fn)]
		if fc == nil {
			continue
		}
		for _, e := range fc.Ensures {
			if !vc.isNilImpliesMono(e.Expr) {
				continue
			}
			env := vc.newEnv(vc.st, vc.st, fc.Pkg)
			env.owner = cr.fn
			ok := true
			for i, fv := range cr.fn.FreeVars {
				ct := deref(fv.Type())
				if _, isStruct := structOf(ct); isStruct {
					ok = false
					continue
				}
				env.vars[fv.Name()] = sval{term: fmt.Sprintf("(%s cq)", vc.captFun(cr.fn, i)), typ: ct}
			}
			_ = ok
			env.vars["result"] = sval{term: "0", typ: types.Universe.Lookup("error").Type()}
			body := vc.trBool(e.Expr, env, e)
			rn := vc.st.get(key)
			vc.assume(fmt.Sprintf("(forall ((cq Int)) (! (=> (and (= (clofn cq) %d) (select %s cq)) %s) :pattern ((select %s cq))))", vc.funcID(cr.fn), rn, body, rn))
		}
	}
}

// isNilImpliesMono: clause has the form "result == nil ==> <monotone facts only>".
func (vc *VC) isNilImpliesMono(e Expr) bool {
	b, ok := e.(*EBinary)
	if !ok || b.Op != "==>" {
		return false
	}
	l, ok := b.X.(*EBinary)
	if !ok || l.Op != "==" {
		return false
	}
	if id, ok := l.X.(*EIdent); !ok || id.Name != "result" {
		return false
	}
	if _, ok := l.Y.(*ENil); !ok {
		return false
	}
	return vc.onlyMonoFacts(b.Y)
}

func (vc *VC) onlyMonoFacts(e Expr) bool {
	switch e := e.(type) {
	case *ECall:
		gd, ok := vc.C.Ghosts[e.Fun]
		return ok && gd.Kind == "fact"
	case *EBinary:
		if e.Op == "&&" || e.Op == "||" {
			return vc.onlyMonoFacts(e.X) && vc.onlyMonoFacts(e.Y)
		}
	case *EQuant:
		if e.Forall {
			if b, ok := e.Body.(*EBinary); ok && b.Op == "==>" {
				return vc.onlyMonoFacts(b.Y)
			}
			return vc.onlyMonoFacts(e.Body)
		}
	}
	return false
}

// ---- go / defer / return ------------------------------------------------------------------------

func (vc *VC) goStmt(ins *ssa.Go) {
	vc.unmodelledConc("go", ins.Pos())
	vc.havocAll(true)
}

func (vc *VC) deferStmt(ins *ssa.Defer) {
	li := vc.loopOf(vc.cur)
	vc.deferred = append(vc.deferred, &deferRec{instr: ins, block: vc.cur, inLoop: li != nil})
	// the arguments are evaluated now; remember them
	ci := vc.mkCallInfo(ins.Common(), ins, nil, "defer-reg")
	vc.deferInfo[ins] = ci
	vc.applyCall(ci)
}

func (vc *VC) runDefers(ins *ssa.RunDefers) {
	// Deferred calls run last-registered first. Defers outside loops were processed earlier (any block from
	// which this one is reachable without a back edge precedes it); defers inside a loop are summarised by
	// the function's deferrule whenever control may have been through that loop.
	var loopDefers []*ssa.Defer
	for _, b := range vc.fn.Blocks {
		for _, x := range b.Instrs {
			if d, ok := x.(*ssa.Defer); ok {
				if li := vc.loopOf(b); li != nil && (li.header.Dominates(vc.cur) || li.blocks[vc.cur]) {
					loopDefers = append(loopDefers, d)
				}
			}
		}
	}
	for i := len(loopDefers) - 1; i >= 0; i-- {
		ci := vc.mkCallInfo(loopDefers[i].Common(), loopDefers[i], nil, "deferred-loop")
		ci.pos = ins.Pos()
		vc.deferLoopRule(ci)
	}
	for i := len(vc.deferred) - 1; i >= 0; i-- {
		d := vc.deferred[i]
		if d.inLoop {
			continue
		}
		r := vc.reach[d.block]
		if r == "" {
			continue
		}
		ci0 := vc.deferInfo[d.instr]
		ci := *ci0
		ci.kind = "deferred-run"
		ci.pos = ins.Pos()
		if r != "true" {
			ci.guard = r
		}
		vc.applyCall(&ci)
	}
}

// deferLoopRule: Go runs every deferred call registered in a loop exactly once at function exit, in
// reverse order. The per-call effect is given by the deferred callee's contract quantified over the
// registrations (ghost fact named in "deferrule REGISTERED => RAN").
func (vc *VC) deferLoopRule(ci *callInfo) {
	if vc.fc == nil || vc.fc.DeferRule == "" {
		vc.abstracted("defer in loop without deferrule")
		vc.havocAll(true)
		return
	}
	parts := strings.Split(vc.fc.DeferRule, "=>")
	if len(parts) != 2 {
		vc.fail("bad deferrule %q", vc.fc.DeferRule)
	}
	reg, ran := strings.TrimSpace(parts[0]), strings.TrimSpace(parts[1])
	kReg, gdReg, ok1 := vc.ghostKey(reg)
	kRan, gdRan, ok2 := vc.ghostKey(ran)
	if !ok1 || !ok2 || (gdReg.Kind != "fact" && !(gdReg.Kind == "table" && gdReg.Result == "bool")) || gdRan.Kind != "fact" || len(gdReg.Params) != len(gdRan.Params) {
		vc.fail("deferrule needs a registration fact/table and a fact of equal arity")
	}
	// every registered call runs now: the state changes as the deferred callee's contract allows (any number
	// of times), then registered ==> ran
	regT := vc.st.get(kReg)
	dfc := vc.C.Funcs[ci.name]
	if dfc != nil && (dfc.External || dfc.Trusted) {
		vc.usedContracts[ci.name] = true
	}
	sub := *ci
	sub.guard = ""
	preD := vc.st
	vc.callEffect(&sub, dfc)
	if vc.st.prev != nil {
		vc.st.havocKeys[kRan] = true
	}
	// ghost variables every single deferred call leaves as it found them ("v == old(v)") are unchanged overall
	if dfc != nil && vc.st != preD {
		for _, e := range dfc.Ensures {
			if b, ok := e.Expr.(*EBinary); ok && b.Op == "==" {
				if id, ok := b.X.(*EIdent); ok {
					if oc, ok := b.Y.(*ECall); ok && oc.Fun == "old" && len(oc.Args) == 1 {
						if id2, ok := oc.Args[0].(*EIdent); ok && id2.Name == id.Name {
							if key, gd, ok := vc.ghostKey(id.Name); ok && gd != nil && gd.Kind == "var" {
								vc.st.set(key, preD.get(key))
							}
						}
					}
				}
			}
		}
	}
	ranT := vc.st.get(kRan)
	var bs, idx []string
	for i := range gdReg.Params {
		v := fmt.Sprintf("dq%d", i)
		bs = append(bs, "("+v+" Int)")
		idx = append(idx, v)
	}
	vc.assume(fmt.Sprintf("(forall (%s) (! (=> %s %s) :pattern (%s)))", strings.Join(bs, " "), nestedSelect(regT, idx), nestedSelect(ranT, idx), nestedSelect(ranT, idx)))
}

func (vc *VC) ret(ins *ssa.Return) {
	r := vc.reach[vc.cur]
	vc.retBlocks = append(vc.retBlocks, r)
	if vc.fc == nil {
		return
	}
	vc.counts["return"]++
	k := vc.counts["return"]
	env := vc.envAt(vc.st, vc.entry)
	rs := vc.fn.Signature.Results()
	for i, rv := range ins.Results {
		sv := sval{term: vc.val(rv), typ: rs.At(i).Type()}
		env.vars[fmt.Sprintf("result.%d", i)] = sv
		if i == 0 {
			env.vars["result"] = sv
		}
		if n := rs.At(i).Name(); n != "" && n != "_" {
			if _, exists := env.vars[n]; !exists {
				env.vars[n] = sv
			}
		}
	}
	for _, e := range vc.fc.Ensures {
		if e.Derived {
			continue
		}
		g, ok := vc.tryTrBool(e.Expr, env, e)
		if !ok {
			// the clause mentions a local variable that is not in scope at this return (it is checked at the
			// returns where it is; a clause that is in scope nowhere is a binding failure, see Generate)
			continue
		}
		vc.ensuresSeen[e]++
		det := fmt.Sprintf("ensures.%d", e.Index)
		if e.Detail != "" {
			det = e.Detail
		}
		o := vc.oblige("ensures", fmt.Sprintf("return#%d/%s%s", k, det, tagSuffix(e.Tags)), g, e.Tags, ins.Pos(), e)
		o.Detail["return"] = fmt.Sprint(k)
	}
	vc.updatesCheck(ins, env)
	vc.lockBalance(ins)
	vc.fnspecReturn(ins)
}

// lockBalance: a function returns with exactly the locks it was entered with (unless it declares updates held).
func (vc *VC) lockBalance(ins *ssa.Return) {
	key, _, ok := vc.ghostKey("held")
	if !ok || vc.fc == nil {
		return
	}
	for _, u := range vc.fc.Updates {
		if u.Ghost.Name == "held" {
			return
		}
	}
	now, entry := vc.st.get(key), vc.entry.get(key)
	if now == entry {
		return
	}
	vc.oblige("lock-balance", fmt.Sprintf("return#%d", vc.counts["return"]), fmt.Sprintf("(= %s %s)", now, entry), vc.fc.allTags(), ins.Pos(), nil)
}

// updatesCheck: a verified function that declares "updates" must leave each named table exactly as the
// declared updates (applied in order to the entry state) prescribe.
func (vc *VC) updatesCheck(ins *ssa.Return, retEnv *specEnv) {
	if vc.fc == nil || len(vc.fc.Updates) == 0 {
		return
	}
	final := vc.st
	names := map[string]bool{}
	var order []string
	// expected tables: the entry tables, updated at arguments evaluated in the final heap
	vc.st = final.derive()
	for _, u := range vc.fc.Updates {
		if key, _, ok := vc.ghostKey(u.Ghost.Name); ok {
			vc.st.set(key, vc.entry.get(key))
		}
	}
	for _, u := range vc.fc.Updates {
		env := vc.envAt(vc.st, vc.entry)
		for k, v := range retEnv.vars {
			if strings.HasPrefix(k, "result") {
				env.vars[k] = v
			}
		}
		vc.ghostSet(u, env, "")
		if !names[u.Ghost.Name] {
			names[u.Ghost.Name] = true
			order = append(order, u.Ghost.Name)
		}
	}
	expected := vc.st
	vc.st = final
	for _, n := range order {
		key, _, _ := vc.ghostKey(n)
		g := fmt.Sprintf("(= %s %s)", final.get(key), expected.get(key))
		vc.oblige("updates", fmt.Sprintf("return#%d/%s", vc.counts["return"], n), g, vc.fc.allTags(), ins.Pos(), vc.fc.Updates[0])
	}
}

// fnspecFor resolves the contract of a call through a function value whose origin declares a fnspec:
// "$dyn:result:<F>" (value returned by F), "$dyn:result.N:<F>", "$dyn:<param>" (parameter of this function).
func (vc *VC) fnspecFor(name string) *FuncContract {
	if !strings.HasPrefix(name, "$dyn:") {
		return nil
	}
	rest := name[5:]
	idx := 0
	switch {
	case strings.HasPrefix(rest, "result:"):
		rest = rest[7:]
	case strings.HasPrefix(rest, "result."):
		j := strings.Index(rest, ":")
		if j < 0 {
			return nil
		}
		fmt.Sscanf(rest[7:j], "%d", &idx)
		rest = rest[j+1:]
	default:
		if vc.fc != nil && vc.fc.ParamSpec != nil {
			if sp, ok := vc.fc.ParamSpec[rest]; ok {
				return vc.C.Funcs["$fnspec."+sp]
			}
		}
		return nil
	}
	fc := vc.C.Funcs[rest]
	if fc == nil || fc.ResultSpec == nil {
		return nil
	}
	if sp, ok := fc.ResultSpec[idx]; ok {
		return vc.C.Funcs["$fnspec."+sp]
	}
	return nil
}

// fnspecReturn: a function that declares "result fnspec S" must return only functions that implement S.
func (vc *VC) fnspecReturn(ins *ssa.Return) {
	if vc.fc == nil || vc.fc.ResultSpec == nil {
		return
	}
	for i, rv := range ins.Results {
		sp, ok := vc.fc.ResultSpec[i]
		if !ok {
			continue
		}
		for _, v := range funcSources(rv, map[ssa.Value]bool{}) {
			var f *ssa.Function
			switch x := v.(type) {
			case *ssa.MakeClosure:
				f = x.Fn.(*ssa.Function)
			case *ssa.Function:
				f = x
			}
			okImpl := false
			if f != nil {
				if c := vc.C.Funcs[CanonName(f)]; c != nil && !c.Trusted {
					for _, im := range c.Implements {
						if im == sp {
							okImpl = true
						}
					}
					if okImpl {
						// conditions under which f meets the spec (its own requires) must hold where it is returned
						env := vc.newEnv(vc.st, vc.st, c.Pkg)
						env.owner = f
						if mc, isClo := v.(*ssa.MakeClosure); isClo {
							for i, fv := range f.FreeVars {
								env.freeCells[fv.Name()] = sval{term: vc.val(mc.Bindings[i]), typ: fv.Type()}
							}
						}
						for _, rq := range c.OwnRequires {
							g := vc.trBool(rq.Expr, env, rq)
							vc.oblige("fnspec-binding", fmt.Sprintf("%s/%s/requires.%d", sp, shortName(CanonName(f)), rq.Index), g, vc.fc.allTags(), ins.Pos(), rq)
						}
					}
				}
			}
			if !okImpl {
				o := vc.oblige("fnspec-binding", sp, "false", vc.fc.allTags(), ins.Pos(), nil)
				what := "a value of unknown origin"
				if f != nil {
					what = CanonName(f) + " (no verified 'implements " + sp + "' contract)"
				}
				o.Detail["why"] = "returns " + what + " where fnspec " + sp + " is promised"
			}
		}
	}
}

func funcSources(v ssa.Value, seen map[ssa.Value]bool) []ssa.Value {
	if seen[v] {
		return nil
	}
	seen[v] = true
	switch x := v.(type) {
	case *ssa.Phi:
		var out []ssa.Value
		for _, e := range x.Edges {
			out = append(out, funcSources(e, seen)...)
		}
		return out
	case *ssa.ChangeType:
		return funcSources(x.X, seen)
	case *ssa.UnOp:
		// load of the named-result cell: look at what was stored there
		if al, ok := x.X.(*ssa.Alloc); ok {
			var out []ssa.Value
			for _, ref := range *al.Referrers() {
				if st, ok := ref.(*ssa.Store); ok && st.Addr == al {
					out = append(out, funcSources(st.Val, seen)...)
				}
			}
			return out
		}
	}
	return []ssa.Value{v}
}
