package gvc

import (
	"fmt"
	"go/types"
	"os"
	"sort"
	"strings"

	"golang.org/x/tools/go/packages"
	"golang.org/x/tools/go/ssa"
	"golang.org/x/tools/go/ssa/ssautil"
)

// Program is the loaded repository: typed packages, SSA, and an index of every
// SSA function (including anonymous ones) by its canonical name.
type Program struct {
	RepoDir string
	ModPath string
	Pkgs    []*packages.Package
	SSA     *ssa.Program
	Funcs   map[string]*ssa.Function // canonical name -> function
	PkgByPath map[string]*packages.Package
}

const BuildTag = "verif"

// CanonName is the key used by contracts: "<pkgpath>.<relname>", where relname
// is e.g. "(*Executor).RunTask$1" or "IsTaskUpToDate".
func CanonName(fn *ssa.Function) string {
	if fn == nil {
		return "<nil>"
	}
	if o := fn.Origin(); o != nil {
		fn = o
	}
	root := fn
	for root.Parent() != nil {
		root = root.Parent()
	}
	var pkg *types.Package
	if root.Pkg != nil {
		pkg = root.Pkg.Pkg
	} else if root.Object() != nil {
		pkg = root.Object().Pkg()
	} else if recv := root.Signature.Recv(); recv != nil {
		// wrappers/thunks
		t := recv.Type()
		if p, ok := t.(*types.Pointer); ok {
			t = p.Elem()
		}
		if n, ok := t.(*types.Named); ok {
			pkg = n.Obj().Pkg()
		}
	}
	rel := stripTypeArgs(fn.RelString(pkg))
	if pkg == nil {
		return rel
	}
	return aliasCanon(pkg.Path() + "." + rel)
}

func Load(repo string) (*Program, error) {
	env := append(os.Environ(),
		"GOFLAGS=-mod=mod", "GOPROXY=off", "GOSUMDB=off", "GOTOOLCHAIN=local", "GOWORK=off")
	cfg := &packages.Config{
		Mode: packages.NeedName | packages.NeedFiles | packages.NeedCompiledGoFiles | packages.NeedImports |
			packages.NeedDeps | packages.NeedTypes | packages.NeedSyntax | packages.NeedTypesInfo |
			packages.NeedTypesSizes | packages.NeedModule,
		Dir:        repo,
		Env:        env,
		BuildFlags: []string{"-tags=" + BuildTag},
		Tests:      false,
	}
	pkgs, err := packages.Load(cfg, "./...")
	if err != nil {
		return nil, err
	}
	var errs []string
	packages.Visit(pkgs, nil, func(p *packages.Package) {
		for _, e := range p.Errors {
			errs = append(errs, e.Error())
		}
	})
	if len(errs) > 0 {
		sort.Strings(errs)
		if len(errs) > 10 {
			errs = errs[:10]
		}
		return nil, fmt.Errorf("package load errors:\n%s", strings.Join(errs, "\n"))
	}
	prog, _ := ssautil.AllPackages(pkgs, ssa.InstantiateGenerics|ssa.GlobalDebug)
	p := &Program{RepoDir: repo, Pkgs: pkgs, SSA: prog, Funcs: map[string]*ssa.Function{}, PkgByPath: map[string]*packages.Package{}}
	packages.Visit(pkgs, nil, func(pk *packages.Package) { p.PkgByPath[pk.PkgPath] = pk })
	for _, pk := range pkgs {
		if pk.Module != nil {
			p.ModPath = pk.Module.Path
		}
	}
	// Build only repository packages (dependencies are used through assumed contracts).
	for _, pk := range pkgs {
		sp := prog.Package(pk.Types)
		if sp != nil {
			sp.Build()
		}
	}
	for _, pk := range pkgs {
		sp := prog.Package(pk.Types)
		if sp == nil {
			continue
		}
		for _, m := range sp.Members {
			switch m := m.(type) {
			case *ssa.Function:
				p.addFunc(m)
			case *ssa.Type:
				t := m.Type()
				for _, tt := range []types.Type{t, types.NewPointer(t)} {
					ms := prog.MethodSets.MethodSet(tt)
					for i := 0; i < ms.Len(); i++ {
						if f := prog.MethodValue(ms.At(i)); f != nil && f.Synthetic == "" {
							p.addFunc(f)
						}
					}
				}
			}
		}
	}
	p.applySymbolHints()
	return p, nil
}

func (p *Program) addFunc(f *ssa.Function) {
	if f == nil {
		return
	}
	if f.Origin() != nil && f.Origin() != f {
		return
	}
	name := CanonName(f)
	if _, ok := p.Funcs[name]; ok {
		return
	}
	p.Funcs[name] = f
	for _, a := range f.AnonFuncs {
		p.addFunc(a)
	}
}

// InRepo reports whether a function belongs to the repository under verification.
func (p *Program) InRepo(pkgPath string) bool {
	return pkgPath == p.ModPath || strings.HasPrefix(pkgPath, p.ModPath+"/")
}

func FuncPkgPath(fn *ssa.Function) string {
	if o := fn.Origin(); o != nil {
		fn = o
	}
	root := fn
	for root.Parent() != nil {
		root = root.Parent()
	}
	if root.Pkg != nil {
		return root.Pkg.Pkg.Path()
	}
	if root.Object() != nil && root.Object().Pkg() != nil {
		return root.Object().Pkg().Path()
	}
	return ""
}

// stripTypeArgs removes type-parameter lists from a name: "(*OrderedMap[K, V]).Set" -> "(*OrderedMap).Set".
func stripTypeArgs(s string) string {
	var b strings.Builder
	depth := 0
	for _, r := range s {
		switch {
		case r == '[':
			depth++
		case r == ']':
			depth--
		case depth == 0:
			b.WriteRune(r)
		}
	}
	return b.String()
}
