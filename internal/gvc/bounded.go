package gvc

import (
	"encoding/json"
	"fmt"
	"os"
	"path/filepath"
	"regexp"
	"strings"
)

// Bounded stand-ins (brief: "where a function cannot be brought within the verifier's reach, a bounded check of
// that function with a stated bound may stand in, labelled bounded and never counted as proved").
// A stand-in is an in-package driver run against the real function through "go test -overlay" over a finite,
// listed corpus. Its result is reported under coverage.bounded_checks; it never counts as an obligation.

type boundedCheck struct {
	prop   string
	name   string // "bounded:<function>"
	fn     string // function the stand-in is for
	why    string // why it is outside the deductive engine
	bound  string
	pkgRel string
	src    string
}

type boundedResult struct {
	Name    string `json:"name"`
	For     string `json:"function"`
	Why     string `json:"outside_reach_because"`
	Bound   string `json:"bound"`
	Cases   int    `json:"cases"`
	Status  string `json:"status"` // passed | FAILED | not-run
	Output  string `json:"output,omitempty"`
	Label   string `json:"label"`
}

var casesRe = regexp.MustCompile(`GVC-BOUNDED-CASES (\d+)`)

func runBounded(prop string) (res []boundedResult, failed []boundedResult) {
	for _, b := range boundedChecks {
		if b.prop != prop {
			continue
		}
		r := boundedResult{Name: b.name, For: b.fn, Why: b.why, Bound: b.bound, Label: "bounded (not a proof; never counted under obligations/discharged)"}
		fail, out, err := runOverlayTest(b.pkgRel, "TestGvcReplay", b.src)
		if m := casesRe.FindStringSubmatch(out); m != nil {
			fmt.Sscan(m[1], &r.Cases)
		}
		switch {
		case fail:
			r.Status = "FAILED"
			r.Output = out
			failed = append(failed, r)
		case err != nil:
			r.Status = "not-run"
			r.Output = err.Error() + "\n" + out
			failed = append(failed, r)
		default:
			r.Status = "passed"
		}
		res = append(res, r)
	}
	return
}

func writeBoundedReplay(prop string, r boundedResult) string {
	dir := filepath.Join(OutDir(), "replays", prop)
	os.MkdirAll(dir, 0o755)
	p := filepath.Join(dir, sanitizeFile(r.Name)+".json")
	b, _ := json.MarshalIndent(map[string]any{"property": prop, "obligation": r.Name, "kind": "bounded", "function": r.For,
		"bound": r.Bound, "status": r.Status, "replay": "the failing case below was run against the real code", "replay_output": r.Output}, "", " ")
	os.WriteFile(p, b, 0o644)
	return p
}

var boundedChecks = []boundedCheck{
	{prop: "C16", name: "bounded:deepcopy.TraverseStringsFunc", fn: "github.com/go-task/task/v3/internal/deepcopy.TraverseStringsFunc",
		why:    "the function is written with package reflect; the engine havocs reflection results, so no safety obligation can be stated over it",
		bound:  "the listed YAML documents (every YAML 1.1 core scalar type incl. timestamp, binary, null, merge keys, anchors, nesting depth <= 4), each decoded to `any` and traversed",
		pkgRel: "internal/deepcopy",
		src: `package deepcopy

import (
	"fmt"
	"testing"

	"gopkg.in/yaml.v3"
)

func TestGvcReplay(t *testing.T) {
	docs := []string{
		"a", "1", "1.5", "true", "~", "2001-12-14", "2001-12-14T21:59:43.10-05:00", "!!binary aGVsbG8=", "0x1F", ".inf", ".nan", "''",
		"[]", "{}", "[a, 1, 2001-12-14, ~, [b, [c, [d]]]]", "{k: v, n: 1, d: 2001-12-14, z: ~, m: {x: {y: {z: 2002-01-01}}}}",
		"- &a {x: 1}\n- *a\n- <<: *a\n  y: 2", "{1: a, 2.5: b, true: c}", "? [a, b]\n: c", "x: !!str 2001-12-14", "x: !!float 1", "x: !!int '3'",
		"- {d: [2001-12-14, {t: 2001-12-14 21:59:43}]}", "s: |\n  multi\n  line", "e: {{.X}}", "'{{.X}}'",
	}
	n := 0
	for _, d := range docs {
		var v any
		if err := yaml.Unmarshal([]byte(d), &v); err != nil {
			continue
		}
		n++
		func() {
			defer func() {
				if r := recover(); r != nil {
					t.Errorf("GVC-REPLAY-REPRODUCED: TraverseStringsFunc panics on the value of the YAML document %q (%T): %v", d, v, r)
				}
			}()
			_, _ = TraverseStringsFunc(v, func(s string) (string, error) { return s, nil })
		}()
	}
	fmt.Printf("GVC-BOUNDED-CASES %d\n", n)
}
`},
}

func init() {
	for i := range boundedChecks {
		boundedChecks[i].src = strings.TrimLeft(boundedChecks[i].src, "\n")
	}
}
