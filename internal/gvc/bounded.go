package gvc

import (
	"encoding/json"
	"fmt"
	"os"
	"path/filepath"
	"regexp"
	"strings"
)

// Bounded stand-ins (brief: "where a function cannot be brought within the verifier's reach, a bounded check of
// that function with a stated bound may stand in, labelled bounded and never counted as proved").
// A stand-in is an in-package driver run against the real function through "go test -overlay" over a finite,
// listed corpus. Its result is reported under coverage.bounded_checks; it never counts as an obligation.

type boundedCheck struct {
	prop   string
	name   string // "bounded:<function>"
	fn     string // function the stand-in is for
	why    string // why it is outside the deductive engine
	bound  string
	pkgRel string
	src    string
}

type boundedResult struct {
	Name    string `json:"name"`
	For     string `json:"function"`
	Why     string `json:"outside_reach_because"`
	Bound   string `json:"bound"`
	Cases   int    `json:"cases"`
	Status  string `json:"status"` // passed | FAILED | not-run
	Output  string `json:"output,omitempty"`
	Label   string `json:"label"`
}

var casesRe = regexp.MustCompile(`GVC-BOUNDED-CASES (\d+)`)

func runBounded(prop string) (res []boundedResult, failed []boundedResult) {
	for _, b := range boundedChecks {
		if b.prop != prop {
			continue
		}
		r := boundedResult{Name: b.name, For: b.fn, Why: b.why, Bound: b.bound, Label: "bounded (not a proof; never counted under obligations/discharged)"}
		fail, out, err := runOverlayTest(b.pkgRel, "TestGvcReplay", b.src)
		if m := casesRe.FindStringSubmatch(out); m != nil {
			fmt.Sscan(m[1], &r.Cases)
		}
		switch {
		case fail:
			r.Status = "FAILED"
			r.Output = out
			failed = append(failed, r)
		case err != nil:
			r.Status = "not-run"
			r.Output = err.Error() + "\n" + out
			failed = append(failed, r)
		default:
			r.Status = "passed"
		}
		res = append(res, r)
	}
	return
}

func writeBoundedReplay(prop string, r boundedResult) string {
	dir := filepath.Join(OutDir(), "replays", prop)
	os.MkdirAll(dir, 0o755)
	p := filepath.Join(dir, sanitizeFile(r.Name)+".json")
	b, _ := json.MarshalIndent(map[string]any{"property": prop, "obligation": r.Name, "kind": "bounded", "function": r.For,
		"bound": r.Bound, "status": r.Status, "replay": "the failing case below was run against the real code", "replay_output": r.Output}, "", " ")
	os.WriteFile(p, b, 0o644)
	return p
}

var boundedChecks = []boundedCheck{
	{prop: "C16", name: "bounded:deepcopy.TraverseStringsFunc", fn: "github.com/go-task/task/v3/internal/deepcopy.TraverseStringsFunc",
		why:    "the function is written with package reflect; the engine havocs reflection results, so no safety obligation can be stated over it",
		bound:  "the listed YAML documents (every YAML 1.1 core scalar type incl. timestamp, binary, null, merge keys, anchors, nesting depth <= 4), each decoded to `any` and traversed",
		pkgRel: "internal/deepcopy",
		src: `package deepcopy

import (
	"fmt"
	"testing"

	"gopkg.in/yaml.v3"
)

func TestGvcReplay(t *testing.T) {
	docs := []string{
		"a", "1", "1.5", "true", "~", "2001-12-14", "2001-12-14T21:59:43.10-05:00", "!!binary aGVsbG8=", "0x1F", ".inf", ".nan", "''",
		"[]", "{}", "[a, 1, 2001-12-14, ~, [b, [c, [d]]]]", "{k: v, n: 1, d: 2001-12-14, z: ~, m: {x: {y: {z: 2002-01-01}}}}",
		"- &a {x: 1}\n- *a\n- <<: *a\n  y: 2", "{1: a, 2.5: b, true: c}", "? [a, b]\n: c", "x: !!str 2001-12-14", "x: !!float 1", "x: !!int '3'",
		"- {d: [2001-12-14, {t: 2001-12-14 21:59:43}]}", "s: |\n  multi\n  line", "e: {{.X}}", "'{{.X}}'",
	}
	n := 0
	for _, d := range docs {
		var v any
		if err := yaml.Unmarshal([]byte(d), &v); err != nil {
			continue
		}
		n++
		func() {
			defer func() {
				if r := recover(); r != nil {
					t.Errorf("GVC-REPLAY-REPRODUCED: TraverseStringsFunc panics on the value of the YAML document %q (%T): %v", d, v, r)
				}
			}()
			_, _ = TraverseStringsFunc(v, func(s string) (string, error) { return s, nil })
		}()
	}
	fmt.Printf("GVC-BOUNDED-CASES %d\n", n)
}
`},
}

func init() {
	boundedChecks = append(boundedChecks, boundedCheck{prop: "C06", name: "bounded:hash.Hash/fields", fn: "github.com/go-task/task/v3/internal/hash.Hash",
		why:    "the when_changed key is computed by hashstructure through reflection; which fields (and which parts of the ordered variable maps) reach the hash cannot be stated as an obligation over go/ssa",
		bound:  "one pair of compiled tasks per exported field of ast.Task (enumerated by reflection, so new fields are covered), differing in that field only - for *Vars fields in the VALUE of one variable, for nested structs in every settable field down to depth 3; the two keys must differ",
		pkgRel: "internal/hash",
		src: `package hash

import (
	"fmt"
	"reflect"
	"testing"

	"github.com/go-task/task/v3/taskfile/ast"
)

func gvcSample(t reflect.Type, seed, depth int) reflect.Value {
	switch t.Kind() {
	case reflect.String:
		return reflect.ValueOf(fmt.Sprintf("x%d", seed)).Convert(t)
	case reflect.Bool:
		return reflect.ValueOf(seed%2 == 0).Convert(t)
	case reflect.Int, reflect.Int8, reflect.Int16, reflect.Int32, reflect.Int64, reflect.Uint, reflect.Uint8, reflect.Uint16, reflect.Uint32, reflect.Uint64:
		return reflect.ValueOf(seed).Convert(t)
	case reflect.Interface:
		return reflect.ValueOf(fmt.Sprintf("v%d", seed))
	case reflect.Slice:
		s := reflect.MakeSlice(t, 1, 1)
		s.Index(0).Set(gvcSample(t.Elem(), seed, depth+1))
		return s
	case reflect.Ptr:
		if t == reflect.TypeOf(&ast.Vars{}) {
			v := ast.NewVars()
			v.Set("A", ast.Var{Value: fmt.Sprintf("%d", seed)})
			return reflect.ValueOf(v)
		}
		p := reflect.New(t.Elem())
		if depth < 3 {
			p.Elem().Set(gvcSample(t.Elem(), seed, depth+1))
		}
		return p
	case reflect.Struct:
		v := reflect.New(t).Elem()
		for i := 0; i < t.NumField(); i++ {
			if v.Field(i).CanSet() && depth < 3 {
				v.Field(i).Set(gvcSample(t.Field(i).Type, seed, depth+1))
			}
		}
		return v
	}
	return reflect.Zero(t)
}

func TestGvcReplay(t *testing.T) {
	tt := reflect.TypeOf(ast.Task{})
	n := 0
	for i := 0; i < tt.NumField(); i++ {
		f := tt.Field(i)
		if !f.IsExported() {
			continue
		}
		a, b := &ast.Task{Task: "t"}, &ast.Task{Task: "t"}
		va, vb := gvcSample(f.Type, 1, 0), gvcSample(f.Type, 2, 0)
		if reflect.DeepEqual(va.Interface(), vb.Interface()) && f.Type != reflect.TypeOf(&ast.Vars{}) {
			continue // no two distinct samples for this type
		}
		reflect.ValueOf(a).Elem().Field(i).Set(va)
		reflect.ValueOf(b).Elem().Field(i).Set(vb)
		if f.Name == "Task" {
			continue // the name is part of the key text itself
		}
		n++
		ha, errA := Hash(a)
		hb, errB := Hash(b)
		if errA != nil || errB != nil {
			t.Errorf("GVC-REPLAY-REPRODUCED: hashing a task with field %s set fails: %v %v", f.Name, errA, errB)
			continue
		}
		if ha == hb {
			t.Errorf("GVC-REPLAY-REPRODUCED: two compiled tasks that differ only in %s (%s) get the same when_changed key %s", f.Name, f.Type, ha)
		}
	}
	fmt.Printf("GVC-BOUNDED-CASES %d\n", n)
}
`})
	for i := range boundedChecks {
		boundedChecks[i].src = strings.TrimLeft(boundedChecks[i].src, "\n")
	}
}
