package gvc

import (
	"encoding/json"
	"fmt"
	"os"
	"path/filepath"
	"regexp"
	"strings"
)

// Bounded stand-ins (brief: "where a function cannot be brought within the verifier's reach, a bounded check of
// that function with a stated bound may stand in, labelled bounded and never counted as proved").
// A stand-in is an in-package driver run against the real function through "go test -overlay" over a finite,
// listed corpus. Its result is reported under coverage.bounded_checks; it never counts as an obligation.

type boundedCheck struct {
	prop   string
	props  []string // further properties the stand-in serves
	name   string // "bounded:<function>"
	fn     string // function the stand-in is for
	why    string // why it is outside the deductive engine
	bound  string
	pkgRel string
	src    string
}

type boundedResult struct {
	Name    string `json:"name"`
	For     string `json:"function"`
	Why     string `json:"outside_reach_because"`
	Bound   string `json:"bound"`
	Cases   int    `json:"cases"`
	Status  string `json:"status"` // passed | FAILED | not-run
	Output  string `json:"output,omitempty"`
	Label   string `json:"label"`
}

var casesRe = regexp.MustCompile(`GVC-BOUNDED-CASES (\d+)`)

func runBounded(prop string) (res []boundedResult, failed []boundedResult) {
	for _, b := range boundedChecks {
		if b.prop != prop && !hasTag(b.props, prop) {
			continue
		}
		r := boundedResult{Name: b.name, For: b.fn, Why: b.why, Bound: b.bound, Label: "bounded (not a proof; never counted under obligations/discharged)"}
		fail, out, err := runOverlayTest(b.pkgRel, "TestGvcReplay", b.src)
		if m := casesRe.FindStringSubmatch(out); m != nil {
			fmt.Sscan(m[1], &r.Cases)
		}
		switch {
		case fail:
			r.Status = "FAILED"
			r.Output = out
			failed = append(failed, r)
		case err != nil:
			r.Status = "not-run"
			r.Output = err.Error() + "\n" + out
			failed = append(failed, r)
		default:
			r.Status = "passed"
		}
		res = append(res, r)
	}
	return
}

func writeBoundedReplay(prop string, r boundedResult) string {
	dir := filepath.Join(OutDir(), "replays", prop)
	os.MkdirAll(dir, 0o755)
	p := filepath.Join(dir, sanitizeFile(r.Name)+".json")
	b, _ := json.MarshalIndent(map[string]any{"property": prop, "obligation": r.Name, "kind": "bounded", "function": r.For,
		"bound": r.Bound, "status": r.Status, "replay": "the failing case below was run against the real code", "replay_output": r.Output}, "", " ")
	os.WriteFile(p, b, 0o644)
	return p
}

var boundedChecks = []boundedCheck{
	{prop: "C16", props: []string{"C11"}, name: "bounded:deepcopy.TraverseStringsFunc", fn: "github.com/go-task/task/v3/internal/deepcopy.TraverseStringsFunc",
		why:    "the function is written with package reflect; the engine havocs reflection results, so no safety obligation can be stated over it",
		bound:  "the listed YAML documents (every YAML 1.1 core scalar type incl. timestamp, binary, null, merge keys, anchors, nesting depth <= 4; every scalar type also as a MAP KEY, NaN included), each decoded to `any` and traversed",
		pkgRel: "internal/deepcopy",
		src: `package deepcopy

import (
	"fmt"
	"testing"

	"gopkg.in/yaml.v3"
)

func TestGvcReplay(t *testing.T) {
	docs := []string{
		"a", "1", "1.5", "true", "~", "2001-12-14", "2001-12-14T21:59:43.10-05:00", "!!binary aGVsbG8=", "0x1F", ".inf", ".nan", "''",
		"[]", "{}", "[a, 1, 2001-12-14, ~, [b, [c, [d]]]]", "{k: v, n: 1, d: 2001-12-14, z: ~, m: {x: {y: {z: 2002-01-01}}}}",
		"- &a {x: 1}\n- *a\n- <<: *a\n  y: 2", "{1: a, 2.5: b, true: c}", "? [a, b]\n: c", "x: !!str 2001-12-14", "x: !!float 1", "x: !!int '3'",
		"- {d: [2001-12-14, {t: 2001-12-14 21:59:43}]}", "s: |\n  multi\n  line", "e: {{.X}}", "'{{.X}}'",
		"{.nan: 1, a: b}", "{.inf: 1, -.inf: 2}", "m: {.nan: {.nan: x}}", "{~: 1}", "{2001-12-14: d}",
	}
	n := 0
	for _, d := range docs {
		var v any
		if err := yaml.Unmarshal([]byte(d), &v); err != nil {
			continue
		}
		n++
		func() {
			defer func() {
				if r := recover(); r != nil {
					t.Errorf("GVC-REPLAY-REPRODUCED: TraverseStringsFunc panics on the value of the YAML document %q (%T): %v", d, v, r)
				}
			}()
			_, _ = TraverseStringsFunc(v, func(s string) (string, error) { return s, nil })
		}()
	}
	// Go values that templates and refs produce (not only what YAML decodes to), and independence of the copy
	vals := []any{map[string]string{"a": "b"}, map[string]int{"a": 1}, []string{"a"}, []int{1}, map[string]any{}, []any{}, map[string][]string{"k": {"v"}},
		struct{ A string }{"x"}, &struct{ A string }{"x"}, [2]string{"a", "b"}, map[string]any{"m": map[string]string{"x": "y"}}}
	for _, v := range vals {
		n++
		func() {
			defer func() {
				if r := recover(); r != nil {
					t.Errorf("GVC-REPLAY-REPRODUCED: TraverseStringsFunc panics on a value of type %T: %v", v, r)
				}
			}()
			_, _ = TraverseStringsFunc(v, func(s string) (string, error) { return s, nil })
		}()
	}
	{
		n++
		orig := map[string]any{}
		out, _ := TraverseStringsFunc(orig, func(s string) (string, error) { return s, nil })
		out["leak"] = 1
		if _, ok := orig["leak"]; ok {
			t.Errorf("GVC-REPLAY-REPRODUCED: the traversal of an EMPTY map returns the map itself: writing to the result changes the (shared) definition")
		}
		n++
		origS := make([]any, 0, 4)
		outS, _ := TraverseStringsFunc(origS, func(s string) (string, error) { return s, nil })
		outS = append(outS, 1)
		if len(origS[:1]) == 1 && origS[:1][0] == 1 {
			t.Errorf("GVC-REPLAY-REPRODUCED: the traversal of an EMPTY slice returns the slice itself (shared backing array)")
		}
	}
	fmt.Printf("GVC-BOUNDED-CASES %d\n", n)
}
`},
}

func init() {
	boundedChecks = append(boundedChecks, boundedCheck{prop: "C06", props: []string{"C01", "C11"}, name: "bounded:hash.Hash/fields", fn: "github.com/go-task/task/v3/internal/hash.Hash",
		why:    "the when_changed key is computed by hashstructure through reflection; which fields (and which parts of the ordered variable maps) reach the hash cannot be stated as an obligation over go/ssa",
		bound:  "one pair of compiled tasks per exported field of ast.Task (enumerated by reflection, so new fields are covered), differing in that field only - for *Vars fields in the VALUE of one variable, for nested structs in every settable field down to depth 3; the two keys must differ",
		pkgRel: "internal/hash",
		src: `package hash

import (
	"fmt"
	"reflect"
	"testing"

	"github.com/go-task/task/v3/taskfile/ast"
)

func gvcSample(t reflect.Type, seed, depth int) reflect.Value {
	switch t.Kind() {
	case reflect.String:
		return reflect.ValueOf(fmt.Sprintf("x%d", seed)).Convert(t)
	case reflect.Bool:
		return reflect.ValueOf(seed%2 == 0).Convert(t)
	case reflect.Int, reflect.Int8, reflect.Int16, reflect.Int32, reflect.Int64, reflect.Uint, reflect.Uint8, reflect.Uint16, reflect.Uint32, reflect.Uint64:
		return reflect.ValueOf(seed).Convert(t)
	case reflect.Interface:
		return reflect.ValueOf(fmt.Sprintf("v%d", seed))
	case reflect.Slice:
		s := reflect.MakeSlice(t, 1, 1)
		s.Index(0).Set(gvcSample(t.Elem(), seed, depth+1))
		return s
	case reflect.Ptr:
		if t == reflect.TypeOf(&ast.Vars{}) {
			v := ast.NewVars()
			v.Set("A", ast.Var{Value: fmt.Sprintf("%d", seed)})
			return reflect.ValueOf(v)
		}
		p := reflect.New(t.Elem())
		if depth < 3 {
			p.Elem().Set(gvcSample(t.Elem(), seed, depth+1))
		}
		return p
	case reflect.Struct:
		v := reflect.New(t).Elem()
		for i := 0; i < t.NumField(); i++ {
			if v.Field(i).CanSet() && depth < 3 {
				v.Field(i).Set(gvcSample(t.Field(i).Type, seed, depth+1))
			}
		}
		return v
	}
	return reflect.Zero(t)
}

func TestGvcReplay(t *testing.T) {
	tt := reflect.TypeOf(ast.Task{})
	n := 0
	for i := 0; i < tt.NumField(); i++ {
		f := tt.Field(i)
		if !f.IsExported() {
			continue
		}
		a, b := &ast.Task{Task: "t"}, &ast.Task{Task: "t"}
		va, vb := gvcSample(f.Type, 1, 0), gvcSample(f.Type, 2, 0)
		if reflect.DeepEqual(va.Interface(), vb.Interface()) && f.Type != reflect.TypeOf(&ast.Vars{}) {
			continue // no two distinct samples for this type
		}
		reflect.ValueOf(a).Elem().Field(i).Set(va)
		reflect.ValueOf(b).Elem().Field(i).Set(vb)
		if f.Name == "Task" {
			continue // the name is part of the key text itself
		}
		n++
		ha, errA := Hash(a)
		hb, errB := Hash(b)
		if errA != nil || errB != nil {
			t.Errorf("GVC-REPLAY-REPRODUCED: hashing a task with field %s set fails: %v %v", f.Name, errA, errB)
			continue
		}
		if ha == hb {
			t.Errorf("GVC-REPLAY-REPRODUCED: two compiled tasks that differ only in %s (%s) get the same when_changed key %s", f.Name, f.Type, ha)
		}
	}
	// names stay bound to their values: swapping the values of two variables is a different set of variables
	for i := 0; i < tt.NumField(); i++ {
		f := tt.Field(i)
		if !f.IsExported() || f.Type != reflect.TypeOf(&ast.Vars{}) {
			continue
		}
		a, b := &ast.Task{Task: "t"}, &ast.Task{Task: "t"}
		va, vb := ast.NewVars(), ast.NewVars()
		va.Set("A", ast.Var{Value: "1"})
		va.Set("B", ast.Var{Value: "2"})
		vb.Set("A", ast.Var{Value: "2"})
		vb.Set("B", ast.Var{Value: "1"})
		reflect.ValueOf(a).Elem().Field(i).Set(reflect.ValueOf(va))
		reflect.ValueOf(b).Elem().Field(i).Set(reflect.ValueOf(vb))
		n++
		ha, _ := Hash(a)
		hb, _ := Hash(b)
		if ha == hb {
			t.Errorf("GVC-REPLAY-REPRODUCED: %s = {A:1, B:2} and {A:2, B:1} get the same when_changed key %s", f.Name, ha)
		}
		// ... and the order in which the same variables were added makes no difference
		vc := ast.NewVars()
		vc.Set("B", ast.Var{Value: "2"})
		vc.Set("A", ast.Var{Value: "1"})
		c := &ast.Task{Task: "t"}
		reflect.ValueOf(c).Elem().Field(i).Set(reflect.ValueOf(vc))
		n++
		if hc, _ := Hash(c); hc != ha {
			t.Errorf("GVC-REPLAY-REPRODUCED: %s: the same variables added in a different order get different when_changed keys (special variables are added in map order, so identical calls would run twice)", f.Name)
		}
	}
	fmt.Printf("GVC-BOUNDED-CASES %d\n", n)
}
`})
	boundedChecks = append(boundedChecks, boundedCheck{prop: "C08", props: []string{"C09", "C10", "C11", "C18", "C16"}, name: "bounded:deepcopy.generic-helpers", fn: "github.com/go-task/task/v3/internal/deepcopy.{Slice,Map,OrderedMap}",
		why:    "the generic copy helpers test every element for the Copier interface at run time (a dynamic type test on a type parameter); their contracts (fresh result, same length, element-wise copies) are assumed by every DeepCopy proof",
		bound:  "nil, empty and two-element inputs, with plain and with Copier elements, for each of the three helpers: the result must be a different object (also for EMPTY inputs), have the same length and equal contents, and writing to it must not change the original",
		pkgRel: "internal/deepcopy",
		src: `package deepcopy

import (
	"fmt"
	"testing"

	"github.com/elliotchance/orderedmap/v3"
)

type gvcBox struct{ v *int }

func (b *gvcBox) DeepCopy() *gvcBox {
	if b == nil {
		return nil
	}
	x := *b.v
	return &gvcBox{v: &x}
}

func TestGvcReplay(t *testing.T) {
	n := 0
	bad := func(f string, a ...any) { t.Errorf("GVC-REPLAY-REPRODUCED: "+f, a...) }
	// OrderedMap
	{
		n++
		func() {
			defer func() {
				if r := recover(); r != nil {
					bad("OrderedMap(nil) panics (%v): a Matrix decoded from an empty mapping ('matrix: {}') holds a nil map, and every command is deep-copied when its task is compiled", r)
				}
			}()
			var none *orderedmap.OrderedMap[string, int]
			if c := OrderedMap(none); c != nil && c.Len() != 0 {
				bad("OrderedMap(nil) is not empty")
			}
		}()
	}
	for _, size := range []int{0, 1, 2} {
		n++
		orig := orderedmap.NewOrderedMap[string, int]()
		for i := 0; i < size; i++ {
			orig.Set(fmt.Sprint("k", i), i)
		}
		c := OrderedMap(orig)
		if c == orig {
			bad("OrderedMap returns its argument (size %d): the copy shares the original", size)
			continue
		}
		if c == nil {
			bad("OrderedMap returns a MISSING map for a map of size %d: Vars.Merge and the other wrappers return silently when their map is missing, so vars merged into the copy later (the vars of an outer include statement) are lost", size)
			continue
		}
		if c.Len() != orig.Len() {
			bad("OrderedMap changes the length (%d -> %d)", orig.Len(), c.Len())
		}
		c.Set("new", 99)
		if _, ok := orig.Get("new"); ok {
			bad("writing to the copy of an OrderedMap of size %d changed the original", size)
		}
	}
	{
		n++
		one := 1
		orig := orderedmap.NewOrderedMap[string, *gvcBox]()
		orig.Set("a", &gvcBox{v: &one})
		c := OrderedMap(orig)
		cv, _ := c.Get("a")
		ov, _ := orig.Get("a")
		if cv == ov || cv.v == ov.v || *cv.v != 1 {
			bad("OrderedMap does not deep-copy elements that have a DeepCopy method")
		}
	}
	// Slice
	if Slice[int](nil) != nil {
		bad("Slice(nil) is not nil")
	}
	for _, size := range []int{0, 1, 2} {
		n++
		orig := make([]int, size, size+2)
		for i := range orig {
			orig[i] = i + 1
		}
		c := Slice(orig)
		if c == nil || len(c) != len(orig) {
			bad("Slice changes nil-ness or length for size %d", size)
			continue
		}
		for i := range c {
			if c[i] != orig[i] {
				bad("Slice changes element %d", i)
			}
		}
		if size > 0 {
			c[0] = 42
			if orig[0] == 42 {
				bad("writing to the copy of a slice changed the original")
			}
		}
		if cap(orig) > len(orig) && cap(c) > 0 && len(c) > 0 && &c[:1][0] == &orig[:1][0] {
			bad("Slice shares the backing array")
		}
	}
	{
		n++
		one := 1
		orig := []*gvcBox{{v: &one}, nil}
		c := Slice(orig)
		if len(c) != 2 || c[0] == orig[0] || c[0].v == orig[0].v || *c[0].v != 1 || c[1] != nil {
			bad("Slice does not deep-copy elements that have a DeepCopy method (or mishandles a nil element)")
		}
	}
	// Map
	if Map[string, int](nil) != nil {
		bad("Map(nil) is not nil")
	}
	for _, size := range []int{0, 2} {
		n++
		orig := map[string]int{}
		for i := 0; i < size; i++ {
			orig[fmt.Sprint("k", i)] = i
		}
		c := Map(orig)
		if c == nil || len(c) != len(orig) {
			bad("Map changes nil-ness or length")
			continue
		}
		c["new"] = 1
		if _, ok := orig["new"]; ok {
			bad("writing to the copy of a map of size %d changed the original", size)
		}
	}
	fmt.Printf("GVC-BOUNDED-CASES %d\n", n)
}
`})
	boundedChecks = append(boundedChecks, boundedCheck{prop: "C17", name: "bounded:logger.FOutf/verbatim", fn: "github.com/go-task/task/v3/internal/logger.(*Logger).FOutf",
		why:    "FOutf prints through function values (the colour function and the print function it returns); calls through function values that are reassigned are outside the engine's fnspec mechanism, so its contract is trusted",
		bound:  "the listed messages (with and without '%' verbs, '%%', '%!', newlines), each printed without arguments, with and without colour: the bytes written must be the message itself - a task prefix is data, not a format string",
		pkgRel: "internal/logger",
		src: `package logger

import (
	"bytes"
	"fmt"
	"testing"
)

func TestGvcReplay(t *testing.T) {
	msgs := []string{"plain", "[build] ", "[cov-100%] ", "100%", "%s", "%d items", "%%", "a%!b", "%v%v\n", "", "50% done\n"}
	n := 0
	for _, color := range []bool{false} {
		for _, m := range msgs {
			n++
			var buf bytes.Buffer
			l := &Logger{Stdout: &buf, Stderr: &buf, Color: color}
			l.FOutf(&buf, Yellow, m)
			if buf.String() != m {
				t.Errorf("GVC-REPLAY-REPRODUCED: FOutf(w, colour, %q) without arguments wrote %q", m, buf.String())
			}
		}
	}
	fmt.Printf("GVC-BOUNDED-CASES %d\n", n)
}
`})
	boundedChecks = append(boundedChecks, boundedCheck{prop: "C18", props: []string{"C11"}, name: "bounded:slicesext.UniqueJoin/no-aliasing", fn: "github.com/go-task/task/v3/internal/slicesext.UniqueJoin",
		why:    "generic over cmp.Ordered and built on slices.Sort / slices.Compact, whose in-place effects on a caller-supplied backing array the engine does not model; its contract (a fresh, sorted, duplicate-free result) is trusted by runCommand, which passes the Taskfile's shared set:/shopt: lists",
		bound:  "the listed argument lists (unsorted first list with and without spare capacity, empty and nil lists, duplicates): the arguments must be left exactly as they were, and writing to the result must not change them",
		pkgRel: "internal/slicesext",
		src: `package slicesext

import (
	"fmt"
	"reflect"
	"testing"
)

func TestGvcReplay(t *testing.T) {
	mk := func(c int, xs ...string) []string {
		s := make([]string, len(xs), len(xs)+c)
		copy(s, xs)
		return s
	}
	cases := [][][]string{
		{mk(0, "pipefail", "errexit", "nounset"), nil, nil},
		{mk(8, "pipefail", "errexit"), nil, nil},
		{mk(0, "b", "a"), mk(0, "c"), nil},
		{mk(4, "b", "a", "b"), mk(0, "a"), mk(2, "z", "y")},
		{nil, nil, nil},
		{mk(0), mk(0, "x"), nil},
	}
	n := 0
	for _, c := range cases {
		n++
		before := make([][]string, len(c))
		for i := range c {
			before[i] = append([]string(nil), c[i]...)
		}
		r := UniqueJoin(c...)
		for i := range c {
			if !reflect.DeepEqual(append([]string(nil), c[i]...), before[i]) {
				t.Errorf("GVC-REPLAY-REPRODUCED: UniqueJoin rewrote its argument %d in place: %v -> %v (the Taskfile's set:/shopt: list is shared by every command)", i, before[i], c[i])
			}
		}
		for j := range r {
			r[j] = "overwritten"
		}
		for i := range c {
			if !reflect.DeepEqual(append([]string(nil), c[i]...), before[i]) {
				t.Errorf("GVC-REPLAY-REPRODUCED: the result of UniqueJoin shares its backing array with argument %d", i)
			}
		}
	}
	fmt.Printf("GVC-BOUNDED-CASES %d\n", n)
}
`})
	for i := range boundedChecks {
		boundedChecks[i].src = strings.TrimLeft(boundedChecks[i].src, "\n")
	}
}
