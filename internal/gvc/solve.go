package gvc

import (
	"bytes"
	"context"
	"fmt"
	"os"
	"os/exec"
	"path/filepath"
	"regexp"
	"strings"
	"sync"
	"time"
)

type SolverCfg struct {
	Name string
	Path string
	Args func(timeoutMs int) []string
}

var Solvers = []SolverCfg{
	{"z3-new-5.1.0", "z3-new", func(ms int) []string { return []string{"-smt2", fmt.Sprintf("-t:%d", ms), "-in"} }},
	{"cvc5-1.0.3", "cvc5", func(ms int) []string {
		return []string{"--lang=smt2", fmt.Sprintf("--tlimit=%d", ms), "--produce-models"}
	}},
	{"z3-4.8.12", "z3", func(ms int) []string { return []string{"-smt2", fmt.Sprintf("-t:%d", ms), "-in"} }},
}

// Query renders the SMT-LIB text of an obligation (prefix query).
func (vc *VC) Query(o *Obligation, wantModel bool) string { return vc.query(o, wantModel, false) }

// query with relaxed=true drops every quantified assumption. Dropping assumptions only enlarges the set of
// models: unsat of the relaxed query still discharges the obligation; a model of it is only a candidate
// counterexample (to be confirmed by replay on the real code).
func (vc *VC) query(o *Obligation, wantModel, relaxed bool) string {
	var b strings.Builder
	b.WriteString("(set-option :produce-models true)\n(set-logic ALL)\n")
	if relaxed {
		for _, l := range strings.Split(Preamble, "\n") {
			if !strings.Contains(l, "(forall") {
				b.WriteString(l + "\n")
			}
		}
	} else {
		b.WriteString(Preamble)
	}
	for _, d := range vc.decls {
		b.WriteString(d)
		b.WriteByte('\n')
	}
	n := o.Pos
	if n > len(vc.cons) {
		n = len(vc.cons)
	}
	for _, c := range vc.cons[:n] {
		if relaxed && (strings.Contains(c, "(forall ") || strings.Contains(c, "(exists ")) {
			continue
		}
		b.WriteString("(assert ")
		b.WriteString(c)
		b.WriteString(")\n")
	}
	if o.Reach != "" && o.Reach != "true" {
		b.WriteString("(assert " + o.Reach + ")\n")
	}
	if o.Cover {
		b.WriteString("(assert " + o.Goal + ")\n")
	} else {
		b.WriteString("(assert (not " + o.Goal + "))\n")
	}
	b.WriteString("(check-sat)\n")
	if wantModel {
		b.WriteString("(get-model)\n")
	}
	return b.String()
}

type solveResult struct {
	status string // unsat, sat, unknown, error
	out    string
	ms     int64
	solver string
}

func runSolver(s SolverCfg, query string, timeoutMs int) solveResult {
	ctx, cancel := context.WithTimeout(context.Background(), time.Duration(timeoutMs+2000)*time.Millisecond)
	defer cancel()
	cmd := exec.CommandContext(ctx, s.Path, s.Args(timeoutMs)...)
	cmd.Stdin = strings.NewReader(query)
	var out bytes.Buffer
	cmd.Stdout = &out
	cmd.Stderr = &out
	t0 := time.Now()
	cmd.Run()
	ms := time.Since(t0).Milliseconds()
	text := out.String()
	first := strings.TrimSpace(text)
	if i := strings.IndexByte(first, '\n'); i >= 0 {
		first = strings.TrimSpace(first[:i])
	}
	st := "unknown"
	switch first {
	case "unsat":
		st = "unsat"
	case "sat":
		st = "sat"
	case "unknown", "timeout":
		st = "unknown"
	default:
		if strings.Contains(first, "error") || strings.Contains(first, "Error") {
			st = "error"
		}
	}
	return solveResult{status: st, out: text, ms: ms, solver: s.Name}
}

type SolveOpts struct {
	TimeoutMs  int
	AllSolvers bool // thorough: every solver on every obligation, disagreement is an error
	Workers    int
	DumpDir    string
	NoRelax    bool // skip the quantifier-free relaxation pass
}

// SolveAll discharges the obligations in parallel.
func SolveAll(items []SolveItem, opts SolveOpts) {
	if opts.Workers <= 0 {
		opts.Workers = 16
	}
	ch := make(chan SolveItem)
	var wg sync.WaitGroup
	for w := 0; w < opts.Workers; w++ {
		wg.Add(1)
		go func() {
			defer wg.Done()
			for it := range ch {
				solveOne(it, opts)
			}
		}()
	}
	for _, it := range items {
		ch <- it
	}
	close(ch)
	wg.Wait()
}

type SolveItem struct {
	VC *VC
	O  *Obligation
}

func solveOne(it SolveItem, opts SolveOpts) {
	o := it.O
	if o.Goal == "true" && !o.Cover {
		o.Status, o.Solver = "discharged", "trivial"
		return
	}
	query := it.VC.Query(o, true)
	o.SMTSize = len(query)
	if opts.DumpDir != "" {
		os.MkdirAll(opts.DumpDir, 0o755)
		os.WriteFile(filepath.Join(opts.DumpDir, sanitizeFile(o.Name)+".smt2"), []byte(query), 0o644)
	}
	var results []solveResult
	decide := func(r solveResult) bool { return r.status == "unsat" || r.status == "sat" }
	if o.Cover {
		// Reachability (vacuity) checks: solvers rarely answer "sat" in the presence of quantified axioms, so
		// the full query is tried briefly and then its quantifier-free relaxation. A relaxed "sat" shows that
		// requires, type facts and path conditions are not contradictory by themselves.
		r := runSolver(Solvers[0], query, 1500)
		if !decide(r) {
			r2 := runSolver(Solvers[0], it.VC.query(o, false, true), 3000)
			r2.solver += " (quantifier-free relaxation)"
			if decide(r2) {
				r = r2
			}
		}
		o.Ms = r.ms
		switch r.status {
		case "sat":
			o.Status, o.Solver = "cover-ok", r.solver
		case "unsat":
			o.Status, o.Solver = "cover-vacuous", r.solver
		default:
			o.Status = "cover-unknown"
		}
		return
	}
	parallel := func(ss []SolverCfg, q string, ms int) {
		var mu sync.Mutex
		var wg sync.WaitGroup
		for _, s := range ss {
			wg.Add(1)
			go func(s SolverCfg) {
				defer wg.Done()
				r := runSolver(s, q, ms)
				mu.Lock()
				results = append(results, r)
				mu.Unlock()
			}(s)
		}
		wg.Wait()
	}
	if opts.AllSolvers {
		parallel(Solvers, query, opts.TimeoutMs)
	} else {
		first := opts.TimeoutMs / 3
		if first < 2000 {
			first = 2000
		}
		r := runSolver(Solvers[0], query, first)
		results = append(results, r)
		if !decide(r) {
			parallel(Solvers[1:], query, opts.TimeoutMs)
		}
	}
	decided := false
	for _, r := range results {
		if decide(r) {
			decided = true
		}
	}
	if !decided && !o.Cover && !opts.NoRelax {
		// quantifier-free relaxation: unsat still discharges, sat gives a candidate counterexample
		rq := it.VC.query(o, true, true)
		r := runSolver(Solvers[0], rq, opts.TimeoutMs/2+1000)
		r.solver += " (quantifier-free relaxation)"
		if r.status == "unsat" {
			results = append(results, r)
		} else if r.status == "sat" {
			o.Model = parseModel(r.out)
			o.Detail["model"] = "candidate from the quantifier-free relaxation of the query (not a proof of violation by itself)"
		}
	}
	var unsat, sat *solveResult
	var total int64
	var raw []string
	for i := range results {
		r := &results[i]
		total += r.ms
		raw = append(raw, fmt.Sprintf("[%s %dms] %s", r.solver, r.ms, firstLines(r.out, 3)))
		if r.status == "unsat" && unsat == nil {
			unsat = r
		}
		if r.status == "sat" && sat == nil {
			sat = r
		}
	}
	o.Ms = total
	o.Raw = strings.Join(raw, "\n")
	if unsat != nil && sat != nil {
		o.Status = "solver-disagreement"
		o.Solver = unsat.solver + " vs " + sat.solver
		return
	}
	if o.Cover {
		switch {
		case sat != nil:
			o.Status, o.Solver = "cover-ok", sat.solver
		case unsat != nil:
			o.Status, o.Solver = "cover-vacuous", unsat.solver
		default:
			o.Status = "cover-unknown"
		}
		return
	}
	switch {
	case unsat != nil:
		o.Status, o.Solver = "discharged", unsat.solver
		o.Detail["total_solver_ms"] = fmt.Sprint(total)
	case sat != nil:
		o.Status, o.Solver = "failed", sat.solver
		o.Model = parseModel(sat.out)
		o.Raw = strings.Join(raw, "\n")
	default:
		o.Status = "unknown"
	}
}

func firstLines(s string, n int) string {
	lines := strings.SplitN(strings.TrimSpace(s), "\n", n+1)
	if len(lines) > n {
		lines = lines[:n]
	}
	return strings.Join(lines, " | ")
}

func sanitizeFile(s string) string {
	r := strings.NewReplacer("/", "_", "(", "", ")", "", "*", "", "$", "_", "#", "_", "[", "_", "]", "_", ",", "_", " ", "_", ":", "_")
	s = r.Replace(s)
	if len(s) > 180 {
		s = s[len(s)-180:]
	}
	return s
}

var modelRe = regexp.MustCompile(`\(define-fun\s+(\|[^|]*\||[^\s()]+)\s+\(\)\s+(Int|Bool)\s+([^\n]*?)\)\s*$`)

// parseModel extracts the scalar constants of a model (z3 or cvc5 format).
func parseModel(out string) map[string]string {
	m := map[string]string{}
	// join lines of the form "(define-fun x () Int\n    5)"
	text := strings.ReplaceAll(out, "\n    ", " ")
	text = strings.ReplaceAll(text, "\n   ", " ")
	for _, line := range strings.Split(text, "\n") {
		line = strings.TrimSpace(line)
		if mm := modelRe.FindStringSubmatch(line); mm != nil {
			name := strings.Trim(mm[1], "|")
			v := strings.TrimSpace(mm[3])
			v = strings.ReplaceAll(v, "(- ", "-")
			v = strings.TrimRight(v, ")")
			m[name] = v
		}
	}
	return m
}
