package gvc

import (
	"go/types"
	"flag"
	"runtime/pprof"
	"fmt"
	"os"
	"path/filepath"
	"sort"
	"strings"
	"time"

	"golang.org/x/tools/go/ssa"
)

var (
	RepoDir  = "/repo"
	VerifDir = "/verif"
)

// OutDir: where evidence and replay files go (GVC_OUT overrides, used by the self-test so that runs on
// mutated scratch copies do not overwrite the evidence of the real tree).
func OutDir() string {
	if d := os.Getenv("GVC_OUT"); d != "" {
		return d
	}
	return VerifDir
}

func Main(args []string) int {
	if len(args) == 0 {
		fmt.Fprintln(os.Stderr, "usage: gvc <check|verify|dump|list|smt|replay|selftest> ...")
		return 2
	}
	if d := os.Getenv("GVC_REPO"); d != "" {
		RepoDir = d
	}
	if d := os.Getenv("GVC_VERIF"); d != "" {
		VerifDir = d
	}
	if pf := os.Getenv("GVC_PROFILE"); pf != "" {
		f, err := os.Create(pf)
		if err == nil {
			pprof.StartCPUProfile(f)
			defer pprof.StopCPUProfile()
		}
	}
	switch args[0] {
	case "dump":
		return cmdDump(args[1:])
	case "verify":
		return cmdVerify(args[1:])
	case "check":
		return cmdCheck(args[1:])
	case "list":
		return cmdList(args[1:])
	case "replay":
		return cmdReplay(args[1:])
	case "names":
		return cmdNames(args[1:])
	case "solesites":
		return cmdSoleSites()
	case "mapranges":
		return cmdMapRanges()
	case "writers":
		return cmdWriters(args[1:])
	case "sweepall":
		return cmdSweepAll(args[1:])
	case "scenario":
		return cmdScenario(args[1:])
	}
	fmt.Fprintln(os.Stderr, "unknown command", args[0])
	return 2
}

type World struct {
	callersOf map[*ssa.Function][]string
	probe     *VC
	P *Program
	C *Contracts
	expanded bool
	implFrameFailures []*Obligation
}

func loadWorld() (*World, error) {
	t0 := time.Now()
	p, err := Load(RepoDir)
	if err != nil {
		return nil, err
	}
	c, err := LoadContracts(RepoDir, p.ModPath, filepath.Join(VerifDir, "contracts", "deps"))
	if err != nil {
		return nil, err
	}
	if os.Getenv("GVC_VERBOSE") != "" {
		fmt.Fprintf(os.Stderr, "loaded %d functions, %d contracts in %v\n", len(p.Funcs), len(c.Funcs), time.Since(t0))
	}
	w := &World{P: p, C: c}
	w.expandStructural()
	w.valueOnlyPackages()
	return w, nil
}

// valueOnlyPackages: functions of standard-library packages that only compute values from their arguments
// (strings, strconv, unicode, math, path ...) and have no explicit contract get the assumed contract
// "pure allocates" (they neither read nor write the program's heap; their results are unconstrained).
// Exceptions - functions that write through an argument - must have an explicit contract.
var valueOnlyPkgs = map[string]bool{"strings": true, "strconv": true, "unicode": true, "unicode/utf8": true, "unicode/utf16": true,
	"math": true, "math/bits": true, "path": true, "html": true, "net/url": true, "encoding/hex": true, "encoding/base64": true}

func (w *World) valueOnlyPackages() {
	for _, fn := range w.P.Funcs {
		for _, b := range fn.Blocks {
			for _, ins := range b.Instrs {
				ci, ok := ins.(ssa.CallInstruction)
				if !ok {
					continue
				}
				callee := ci.Common().StaticCallee()
				if callee == nil || callee.Signature.Recv() != nil {
					continue
				}
				pk := FuncPkgPath(callee)
				if !valueOnlyPkgs[pk] {
					continue
				}
				name := CanonName(callee)
				if _, has := w.C.Funcs[name]; has {
					continue
				}
				hasFunc := false
				for i := 0; i < callee.Signature.Params().Len(); i++ {
					if _, isSig := callee.Signature.Params().At(i).Type().Underlying().(*types.Signature); isSig {
						hasFunc = true
					}
				}
				if hasFunc {
					continue
				}
				w.C.Funcs[name] = &FuncContract{Name: name, Pkg: pk, Trusted: true, External: true, Pure: true, Allocates: true, HasMod: true,
					Nilable: map[string]bool{"result": true, "result.0": true, "result.1": true, "result.2": true}, Tags: map[string]bool{}, File: "(value-only standard package)"}
			}
		}
	}
}

func (w *World) findFuncs(pat string) []*ssa.Function {
	var names []string
	for n := range w.P.Funcs {
		if n == pat || matchCallee(n, pat) {
			names = append(names, n)
		}
	}
	sort.Strings(names)
	var out []*ssa.Function
	for _, n := range names {
		out = append(out, w.P.Funcs[n])
	}
	return out
}

func cmdDump(args []string) int {
	w, err := loadWorld()
	if err != nil {
		fmt.Fprintln(os.Stderr, err)
		return 2
	}
	for _, pat := range args {
		for _, f := range w.findFuncs(pat) {
			fmt.Println("# canonical:", CanonName(f))
			f.WriteTo(os.Stdout)
		}
	}
	return 0
}

func cmdList(args []string) int {
	w, err := loadWorld()
	if err != nil {
		fmt.Fprintln(os.Stderr, err)
		return 2
	}
	var names []string
	for n := range w.P.Funcs {
		if len(args) == 0 || strings.Contains(n, args[0]) {
			names = append(names, n)
		}
	}
	sort.Strings(names)
	for _, n := range names {
		fmt.Println(n)
	}
	return 0
}

// cmdVerify: debugging aid — verify every obligation of the matching functions.
func cmdVerify(args []string) int {
	fs := flag.NewFlagSet("verify", flag.ContinueOnError)
	timeout := fs.Int("timeout", 10000, "solver timeout ms")
	dump := fs.String("dump", "", "directory for SMT files")
	all := fs.Bool("all-solvers", false, "run every solver")
	verbose := fs.Bool("v", false, "print discharged obligations too")
	sweep := fs.Bool("sweep", false, "ignore contracts (safety only)")
	if err := fs.Parse(args); err != nil {
		return 2
	}
	w, err := loadWorld()
	if err != nil {
		fmt.Fprintln(os.Stderr, err)
		return 2
	}
	var items []SolveItem
	var vcs []*VC
	for _, pat := range fs.Args() {
		fns := w.findFuncs(pat)
		if len(fns) == 0 {
			fmt.Fprintln(os.Stderr, "no function matches", pat)
			return 2
		}
		for _, f := range fns {
			fc := w.C.Funcs[CanonName(f)]
			if *sweep {
				fc = nil
			}
			vc := NewVC(w.P, w.C, f, fc)
			if err := vc.Generate(); err != nil {
				fmt.Fprintln(os.Stderr, "ERROR", err)
				return 2
			}
			vcs = append(vcs, vc)
			for _, o := range vc.Obls {
				items = append(items, SolveItem{vc, o})
			}
		}
	}
	SolveAll(items, SolveOpts{TimeoutMs: *timeout, AllSolvers: *all, DumpDir: *dump})
	bad := 0
	for _, it := range items {
		o := it.O
		ok := o.Status == "discharged" || o.Status == "cover-ok"
		if !ok {
			bad++
		}
		if ok && !*verbose {
			continue
		}
		fmt.Printf("%-18s %-60s %s %dms %s\n", o.Status, o.Name, o.SrcPos, o.Ms, o.Solver)
		if !ok {
			if o.Text != "" {
				fmt.Printf("    clause: %s\n", o.Text)
			}
			if len(o.Model) > 0 {
				fmt.Printf("    model: %s\n", modelSummary(o.Model, 24))
			} else if o.Raw != "" {
				fmt.Printf("    solver: %s\n", strings.ReplaceAll(o.Raw, "\n", "\n            "))
			}
			for k, v := range o.Detail {
				fmt.Printf("    %s: %s\n", k, v)
			}
		}
	}
	for _, vc := range vcs {
		if len(vc.Abstract) > 0 {
			var ks []string
			for k, n := range vc.Abstract {
				ks = append(ks, fmt.Sprintf("%s×%d", k, n))
			}
			sort.Strings(ks)
			fmt.Printf("abstracted in %s: %s\n", vc.Name, strings.Join(ks, "; "))
		}
	}
	fmt.Printf("%d obligations, %d not discharged\n", len(items), bad)
	if bad > 0 {
		return 1
	}
	return 0
}

func modelSummary(m map[string]string, max int) string {
	var ks []string
	for k := range m {
		if strings.HasPrefix(k, "p_") || strings.HasPrefix(k, "v_") || strings.HasPrefix(k, "fv_") || strings.HasPrefix(k, "R_") {
			ks = append(ks, k)
		}
	}
	sort.Slice(ks, func(i, j int) bool {
		pi, pj := strings.HasPrefix(ks[i], "p_"), strings.HasPrefix(ks[j], "p_")
		if pi != pj {
			return pi
		}
		return ks[i] < ks[j]
	})
	var parts []string
	for _, k := range ks {
		if strings.HasPrefix(k, "R_") && m[k] != "true" {
			continue
		}
		parts = append(parts, k+"="+m[k])
		if len(parts) >= max {
			break
		}
	}
	return strings.Join(parts, " ")
}

// cmdSweepAll: exploration aid. Zero-annotation safety sweep (nil dereference, index, slice bounds, nil-map store,
// type assertion, division) of every function of the repository, contracts ignored except those of the callees.
// Prints the obligations that are NOT discharged; nothing here is claimed by any property check - the output is
// read by hand (a failure is "needs a precondition" far more often than a defect).
func cmdSweepAll(args []string) int {
	fs := flag.NewFlagSet("sweepall", flag.ContinueOnError)
	timeout := fs.Int("timeout", 5000, "solver timeout ms")
	only := fs.String("pkg", "", "only functions whose canonical name contains this")
	if err := fs.Parse(args); err != nil {
		return 2
	}
	w, err := loadWorld()
	if err != nil {
		fmt.Fprintln(os.Stderr, err)
		return 2
	}
	var names []string
	for n, f := range w.P.Funcs {
		if !w.P.InRepo(FuncPkgPath(f)) || len(f.Blocks) == 0 || f.Synthetic != "" && f.Parent() == nil {
			continue
		}
		if *only != "" && !strings.Contains(n, *only) {
			continue
		}
		names = append(names, n)
	}
	sort.Strings(names)
	var items []SolveItem
	nf, nerr := 0, 0
	for _, n := range names {
		f := w.P.Funcs[n]
		func() {
			defer func() {
				if r := recover(); r != nil {
					nerr++
					fmt.Printf("GEN-ERROR %s: %v\n", n, r)
				}
			}()
			vc := NewVC(w.P, w.C, f, nil)
			if err := vc.Generate(); err != nil {
				nerr++
				fmt.Printf("GEN-ERROR %s: %v\n", n, err)
				return
			}
			nf++
			for _, o := range vc.Obls {
				if o.Cover {
					continue
				}
				items = append(items, SolveItem{vc, o})
			}
		}()
	}
	SolveAll(items, SolveOpts{TimeoutMs: *timeout})
	bad := 0
	for _, it := range items {
		o := it.O
		if o.Status == "discharged" || o.Status == "cover-ok" {
			continue
		}
		bad++
		fmt.Printf("%-10s %-14s %s  %s\n", o.Status, o.Kind, o.SrcPos, shortName(o.Func))
	}
	fmt.Printf("%d functions swept (%d generation errors), %d safety obligations, %d not discharged\n", nf, nerr, len(items), bad)
	return 0
}
