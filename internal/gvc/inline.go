package gvc

import (
	"fmt"

	"golang.org/x/tools/go/ssa"
)

// Inlining of contract-less helpers.
//
// A static call to a small, loop-free repository function that has NO contract (typically a few lines a
// refactoring extracted into a private helper) is verified as if its body stood at the call site: the callee's
// blocks are walked in the caller's state, stores are checked against the CALLER's frame, calls inside it are
// matched against the caller's site / nosite clauses (static ordinals count through inlined bodies), and the
// states at its returns are merged into the caller's continuation. Nothing is assumed about the helper.
// Functions that are inferred pure keep the cheaper treatment (unknown result, no effect).

type inlFrame struct {
	call   *ssa.Call
	callee *ssa.Function
	id     int
	rets   []inlRet
	path   string
}

type inlRet struct {
	reach string
	st    *state
	res   []string
}

const inlMaxInstrs = 120
const inlMaxDepth = 2

func (vc *VC) inlinable(fn *ssa.Function) bool {
	if fn == nil || len(fn.Blocks) == 0 || fn == vc.fn || fn.Synthetic != "" || fn.Parent() != nil {
		return false
	}
	if v, ok := vc.inlMemo[fn]; ok {
		return v
	}
	ok := vc.inlinable0(fn)
	vc.inlMemo[fn] = ok
	return ok
}

func (vc *VC) inlinable0(fn *ssa.Function) bool {
	if !vc.P.InRepo(FuncPkgPath(fn)) {
		return false
	}
	if vc.C.Funcs[CanonName(fn)] != nil {
		return false
	}
	if o := fn.Origin(); o != nil && vc.C.Funcs[CanonName(o)] != nil {
		return false
	}
	if fn.Recover != nil {
		return false
	}
	// closures of the helper: allowed when none of them is under contract (directly or in a site clause)
	for _, af := range fn.AnonFuncs {
		if vc.C.Funcs[CanonName(af)] != nil || len(af.AnonFuncs) > 0 {
			return false
		}
	}
	// a function that some contract names in a site / nosite clause is a unit of its own for that contract
	name := CanonName(fn)
	for _, fc := range vc.C.Funcs {
		for _, sc := range fc.Sites {
			if sc.Site == name || matchCallee(name, sc.Site) {
				return false
			}
		}
		for _, sc := range fc.NoSites {
			if sc.Site == name || matchCallee(name, sc.Site) {
				return false
			}
		}
	}
	n := 0
	for _, b := range fn.Blocks {
		for _, ins := range b.Instrs {
			if _, isDbg := ins.(*ssa.DebugRef); !isDbg {
				n++
			}
			switch x := ins.(type) {
			case *ssa.Defer, *ssa.Go, *ssa.Select, *ssa.RunDefers:
				return false
			case *ssa.Call:
				if x.Call.StaticCallee() == fn {
					return false
				}
			}
		}
	}
	if n > inlMaxInstrs {
		return false
	}
	if vc.inferPure(fn) && n > 40 {
		return false // larger pure helpers keep the cheap treatment (unknown result, no effect)
	}
	return true
}

// inlineTarget: the callee to inline at this call, or nil.
func (vc *VC) inlineTarget(c *ssa.CallCommon) *ssa.Function {
	if c.IsInvoke() {
		return nil
	}
	fn := c.StaticCallee()
	if fn == nil || !vc.inlinable(fn) {
		return nil
	}
	if len(vc.inlStack) >= inlMaxDepth {
		return nil
	}
	for _, f := range vc.inlStack {
		if f.callee == fn {
			return nil
		}
	}
	return fn
}

func (vc *VC) inlPath() string {
	if len(vc.inlStack) == 0 {
		return ""
	}
	return vc.inlStack[len(vc.inlStack)-1].path
}

// outerBlock: the block of the function under verification that control is (transitively) in.
// blockIn: the block of fn that control is in right now - the current block when fn is the function being walked,
// otherwise the block of the call (on the inline stack) through which control left fn.
func (vc *VC) blockIn(fn *ssa.Function) *ssa.BasicBlock {
	if vc.cur != nil && vc.cur.Parent() == fn {
		return vc.cur
	}
	for i := len(vc.inlStack) - 1; i >= 0; i-- {
		if cb := vc.inlStack[i].call.Block(); cb.Parent() == fn {
			return cb
		}
	}
	return nil
}

func (vc *VC) outerBlock() *ssa.BasicBlock {
	if len(vc.inlStack) > 0 {
		return vc.inlStack[0].call.Block()
	}
	return vc.cur
}

// dominatesHere: whether a definition in block b is in force at the current point, through inlined frames.
// level is larger for definitions that are "closer" (inner frames first).
func (vc *VC) dominatesHere(b *ssa.BasicBlock) (ok bool, level int) {
	if vc.cur == nil {
		return b.Parent() == vc.fn, 0
	}
	if b.Parent() == vc.cur.Parent() {
		return b == vc.cur || b.Dominates(vc.cur), len(vc.inlStack)
	}
	for i := len(vc.inlStack) - 1; i >= 0; i-- {
		cb := vc.inlStack[i].call.Block()
		if cb.Parent() == b.Parent() {
			return b == cb || b.Dominates(cb), i
		}
	}
	return false, 0
}

func (vc *VC) inlineCall(ins *ssa.Call, fn *ssa.Function) {
	vc.inlSeq++
	fr := &inlFrame{call: ins, callee: fn, id: vc.inlSeq, path: fmt.Sprintf("%s/%p", vc.inlPath(), ins)}
	vc.Abstract["contract-less helper verified inline at its call site: "+shortName(CanonName(fn))]++
	callerCur, callerReach := vc.cur, vc.reach[vc.cur]
	if callerReach == "" {
		callerReach = "true"
	}
	// arguments
	c := ins.Common()
	args := make([]string, len(c.Args))
	for i, a := range c.Args {
		args[i] = vc.val(a)
	}
	savedPrefix := vc.inlPrefix
	vc.inlPrefix = fmt.Sprintf("i%d_", fr.id)
	vc.inlStack = append(vc.inlStack, fr)
	// forget what an earlier instance of the same callee left behind
	vc.forgetCallee(fn)
	for i, p := range fn.Params {
		if i < len(args) {
			vc.vals[p] = args[i]
		}
	}
	// the loops of this instance of the helper: cut at their headers like the loops of the function itself, with
	// the invariants the contract gives for their (static) numbers
	savedLoops := map[*ssa.BasicBlock]*loopInfo{}
	nList := len(vc.loopList)
	for _, ls := range vc.loopShapes(fn) {
		savedLoops[ls.header] = vc.loops[ls.header]
	}
	vc.installLoops(fn, fr.path)
	order := inlTopo(fn)
	for _, b := range order {
		if b.Index == 0 {
			vc.cur = b
			vc.reach[b] = callerReach
		}
		vc.block(b)
	}
	for h, old := range savedLoops {
		if old == nil {
			delete(vc.loops, h)
		} else {
			vc.loops[h] = old
		}
	}
	vc.loopList = vc.loopList[:nList]
	// continuation: merge the states at the callee's returns
	vc.inlStack = vc.inlStack[:len(vc.inlStack)-1]
	vc.inlPrefix = savedPrefix
	vc.cur = callerCur
	rs := fn.Signature.Results()
	res := make([]string, rs.Len())
	switch len(fr.rets) {
	case 0:
		// the helper never returns normally (it panics): nothing is known afterwards
		vc.havocAll(true)
		for i := range res {
			res[i] = vc.freshConst("inlres", sortOf(rs.At(i).Type()))
		}
	case 1:
		vc.st = fr.rets[0].st
		copy(res, fr.rets[0].res)
	default:
		var edges []stEdge
		for _, r := range fr.rets {
			edges = append(edges, stEdge{r.reach, r.st})
		}
		vc.st = vc.mergeStates(edges)
		for i := range res {
			res[i] = vc.freshConst("inlres", sortOf(rs.At(i).Type()))
			for _, r := range fr.rets {
				vc.assert(fmt.Sprintf("(=> %s (= %s %s))", r.reach, res[i], r.res[i]))
			}
		}
	}
	// the continuation is reached through one of the helper's returns: a path of the helper that ends at the back
	// edge of one of its (cut) loops does not continue in the caller
	if len(fr.rets) > 0 && len(vc.loopShapes(fn)) > 0 {
		var rs []string
		for _, r := range fr.rets {
			rs = append(rs, r.reach)
		}
		nr := vc.declare(fmt.Sprintf("R_%scont%d", savedPrefix, fr.id), "Bool")
		vc.assert(fmt.Sprintf("(= %s %s)", nr, and(callerReach, or(rs...))))
		vc.reach[callerCur] = nr
	}
	vc.forgetCallee(fn)
	vc.bindResults(ins, res)
}

func (vc *VC) inlineRet(ins *ssa.Return) {
	fr := vc.inlStack[len(vc.inlStack)-1]
	r := inlRet{reach: vc.reach[vc.cur], st: vc.st}
	if r.reach == "" {
		r.reach = "true"
	}
	for _, rv := range ins.Results {
		r.res = append(r.res, vc.val(rv))
	}
	fr.rets = append(fr.rets, r)
}

func (vc *VC) forgetCallee(fn *ssa.Function) {
	for _, p := range fn.Params {
		delete(vc.vals, p)
	}
	for _, b := range fn.Blocks {
		delete(vc.reach, b)
		delete(vc.endState, b)
		for _, ins := range b.Instrs {
			if v, ok := ins.(ssa.Value); ok {
				delete(vc.vals, v)
				delete(vc.tuples, v)
			}
		}
	}
}

func inlTopo(fn *ssa.Function) []*ssa.BasicBlock {
	seen := map[*ssa.BasicBlock]bool{}
	var post []*ssa.BasicBlock
	var dfs func(b *ssa.BasicBlock)
	dfs = func(b *ssa.BasicBlock) {
		seen[b] = true
		for _, s := range b.Succs {
			if s.Dominates(b) {
				continue // back edge
			}
			if !seen[s] {
				dfs(s)
			}
		}
		post = append(post, b)
	}
	dfs(fn.Blocks[0])
	for i, j := 0, len(post)-1; i < j; i, j = i+1, j-1 {
		post[i], post[j] = post[j], post[i]
	}
	return post
}

// walkInstrs visits the instructions of the function under verification in static order, descending into the
// bodies of helpers that are verified inline. path identifies the chain of call sites.
func (vc *VC) walkInstrs(fn *ssa.Function, path string, depth int, stack []*ssa.Function, visit func(ins ssa.Instruction, path string)) {
	for _, b := range fn.Blocks {
		for _, x := range b.Instrs {
			if call, ok := x.(*ssa.Call); ok && depth < inlMaxDepth && !call.Call.IsInvoke() {
				if callee := call.Call.StaticCallee(); callee != nil && vc.inlinable(callee) && !inStack(stack, callee) {
					vc.walkInstrs(callee, fmt.Sprintf("%s/%p", path, call), depth+1, append(stack, callee), visit)
					continue
				}
			}
			visit(x, path)
		}
	}
}

func inStack(st []*ssa.Function, f *ssa.Function) bool {
	for _, x := range st {
		if x == f {
			return true
		}
	}
	return false
}
