package gvc

import (
	"bytes"
	"context"
	"encoding/json"
	"fmt"
	"os"
	"os/exec"
	"path/filepath"
	"strings"
	"time"
)

// runOverlayTest injects a test file into package directory pkgRel of the repository with go test -overlay
// (nothing is written under the repository) and runs test function name. It reports whether the test FAILED
// (= the counterexample reproduces on the real code) and the output.
func runOverlayTest(pkgRel, testName, src string) (failed bool, out string, err error) {
	return runOverlayTestOpt(pkgRel, testName, src, strings.Contains(src, "// gvc:race"))
}

func runOverlayTestOpt(pkgRel, testName, src string, race bool) (failed bool, out string, err error) {
	tmp, err := os.MkdirTemp("", "gvc-replay-")
	if err != nil {
		return false, "", err
	}
	defer os.RemoveAll(tmp)
	testFile := filepath.Join(tmp, "zz_gvc_replay_test.go")
	if err := os.WriteFile(testFile, []byte(src), 0o644); err != nil {
		return false, "", err
	}
	target := filepath.Join(RepoDir, filepath.FromSlash(pkgRel), "zz_gvc_replay_test.go")
	ov, _ := json.Marshal(map[string]any{"Replace": map[string]string{target: testFile}})
	ovFile := filepath.Join(tmp, "overlay.json")
	os.WriteFile(ovFile, ov, 0o644)
	ctx, cancel := context.WithTimeout(context.Background(), 180*time.Second)
	defer cancel()
	pkgArg := "./" + filepath.ToSlash(pkgRel)
	if pkgRel == "" || pkgRel == "." {
		pkgArg = "."
	}
	args := []string{"test", "-overlay", ovFile, "-vet=off", "-count=1", "-timeout", "120s", "-run", "^" + testName + "$"}
	if race {
		args = append(args, "-race")
	}
	args = append(args, pkgArg)
	cmd := exec.CommandContext(ctx, "go", args...)
	cmd.Dir = RepoDir
	cmd.Env = append(os.Environ(), "GOFLAGS=-mod=mod", "GOPROXY=off", "GOSUMDB=off", "GOTOOLCHAIN=local", "GOCACHE="+goCache())
	var buf bytes.Buffer
	cmd.Stdout, cmd.Stderr = &buf, &buf
	runErr := cmd.Run()
	out = buf.String()
	if len(out) > 6000 {
		out = out[:6000] + "\n...[truncated]"
	}
	if runErr == nil {
		return false, out, nil
	}
	if strings.Contains(out, "GVC-REPLAY-REPRODUCED") || (race && strings.Contains(out, "WARNING: DATA RACE")) {
		return true, out, nil
	}
	return false, out, fmt.Errorf("replay did not run to a verdict: %v", runErr)
}

func goCache() string {
	if c := os.Getenv("GOCACHE"); c != "" {
		return c
	}
	out, err := exec.Command("go", "env", "GOCACHE").Output()
	if err == nil {
		return strings.TrimSpace(string(out))
	}
	return filepath.Join(os.TempDir(), "gvc-gocache")
}

// pkgRelOf: repository-relative directory of the package of a canonical function name.
func (w *World) pkgRelOf(fn string) (rel, pkgName string, ok bool) {
	f := w.P.Funcs[fn]
	if f == nil {
		return "", "", false
	}
	path := FuncPkgPath(f)
	if !w.P.InRepo(path) {
		return "", "", false
	}
	rel = strings.TrimPrefix(strings.TrimPrefix(path, w.P.ModPath), "/")
	pk := w.P.PkgByPath[path]
	if pk == nil {
		return "", "", false
	}
	return rel, pk.Types.Name(), true
}

// tryReplay attempts to reproduce a failed obligation on the real code; it records the outcome in rep.
func tryReplay(r *PropResult, o *Obligation, rep map[string]any) {
	tmpl := replayFor(r, o)
	if tmpl == nil {
		rep["replay"] = "no replay template for this obligation; the failed obligation and the solver output above are the evidence"
		return
	}
	rep["replay_package"] = tmpl.pkgRel
	rep["replay_test"] = tmpl.testName
	rep["replay_source"] = tmpl.src
	failed, out, err := runOverlayTest(tmpl.pkgRel, tmpl.testName, tmpl.src)
	rep["replay_output"] = out
	switch {
	case err != nil:
		rep["replay"] = "replay could not be run: " + err.Error()
	case failed:
		rep["replay"] = "REPRODUCED on the real code: " + tmpl.what
		o.Detail["replayed"] = "true"
	default:
		rep["replay"] = "candidate input did not reproduce on the real code"
	}
}

type replayTemplate struct {
	pkgRel, testName, src, what string
}

func replayFor(r *PropResult, o *Obligation) *replayTemplate {
	if o.Clause != nil && strings.HasPrefix(o.Clause.Detail, "field:") {
		return replayFieldCopied(r, o)
	}
	if o.Kind == "ensures" && o.Clause != nil {
		if fn := r.W.P.Funcs[o.Func]; fn != nil && fn.Name() == "UnmarshalYAML" && len(fn.Params) > 0 {
			return replayDecoderEnsures(r, o)
		}
	}
	if sc, ok := scenarioForObligation(o); ok {
		return &replayTemplate{pkgRel: sc.pkgRel, testName: "TestGvcReplay", src: sc.src, what: sc.what}
	}
	if fn, ok := replayRegistry[o.Kind]; ok {
		return fn(r, o)
	}
	return nil
}

var replayRegistry = map[string]func(*PropResult, *Obligation) *replayTemplate{}

// replayFieldCopied: set the field to a non-zero value by reflection, call the copy function, compare.
func replayFieldCopied(r *PropResult, o *Obligation) *replayTemplate {
	field := strings.TrimPrefix(o.Clause.Detail, "field:")
	rel, pkgName, ok := r.W.pkgRelOf(o.Func)
	if !ok {
		return nil
	}
	fn := r.W.P.Funcs[o.Func]
	if fn == nil || len(fn.Params) == 0 {
		return nil
	}
	recvT := deref(fn.Params[0].Type())
	tn := shortTypeName(typeStr(recvT))
	method := fn.Name()
	src := fmt.Sprintf(`package %s

import (
	"reflect"
	"testing"
)

func gvcNonZero(v reflect.Value) bool {
	switch v.Kind() {
	case reflect.Bool:
		v.SetBool(true)
	case reflect.String:
		v.SetString("gvc")
	case reflect.Int, reflect.Int8, reflect.Int16, reflect.Int32, reflect.Int64:
		v.SetInt(7)
	case reflect.Uint, reflect.Uint8, reflect.Uint16, reflect.Uint32, reflect.Uint64:
		v.SetUint(7)
	case reflect.Slice:
		s := reflect.MakeSlice(v.Type(), 1, 1)
		gvcNonZero(s.Index(0))
		v.Set(s)
	case reflect.Ptr:
		p := reflect.New(v.Type().Elem())
		v.Set(p)
	case reflect.Struct:
		for i := 0; i < v.NumField(); i++ {
			if v.Field(i).CanSet() {
				gvcNonZero(v.Field(i))
			}
		}
	default:
		return false
	}
	return true
}

func TestGvcReplay(t *testing.T) {
	orig := &%s{}
	f := reflect.ValueOf(orig).Elem().FieldByName(%q)
	if !f.IsValid() || !f.CanSet() || !gvcNonZero(f) {
		t.Skip("field cannot be set by reflection")
	}
	cp := orig.%s()
	got := reflect.ValueOf(cp).Elem().FieldByName(%q).Interface()
	if !reflect.DeepEqual(got, f.Interface()) {
		t.Fatalf("GVC-REPLAY-REPRODUCED: %s.%s() lost field %s: got %%#v, want %%#v", got, f.Interface())
	}
}
`, pkgName, tn, field, method, field, tn, method, field)
	return &replayTemplate{pkgRel: rel, testName: "TestGvcReplay", src: src,
		what: fmt.Sprintf("(&%s{%s: <non-zero>}).%s() returns a copy whose %s differs", tn, field, method, field)}
}

func shortTypeName(s string) string {
	if i := strings.LastIndex(s, "."); i >= 0 {
		return s[i+1:]
	}
	return s
}

// cmdReplay re-runs the replay recorded in a replay file: exit 1 if it reproduces on the current tree.
func cmdReplay(args []string) int {
	if len(args) != 1 {
		fmt.Fprintln(os.Stderr, "usage: gvc replay <replay-file.json>")
		return 2
	}
	b, err := os.ReadFile(args[0])
	if err != nil {
		fmt.Fprintln(os.Stderr, err)
		return 2
	}
	var rep map[string]any
	if err := json.Unmarshal(b, &rep); err != nil {
		fmt.Fprintln(os.Stderr, err)
		return 2
	}
	fmt.Printf("obligation: %v\nclause: %v\nstatus: %v\n", rep["obligation"], rep["clause"], rep["status"])
	src, _ := rep["replay_source"].(string)
	if src == "" {
		fmt.Println("this replay file carries no executable replay (no-failing-input-found); solver output:")
		fmt.Println(rep["solver_output"])
		return 0
	}
	pkgRel, _ := rep["replay_package"].(string)
	name, _ := rep["replay_test"].(string)
	failed, out, err := runOverlayTest(pkgRel, name, src)
	fmt.Println(out)
	if err != nil {
		fmt.Println("replay error:", err)
		return 2
	}
	if failed {
		fmt.Printf("VIOLATION property=%v replay=%s\n", rep["property"], args[0])
		return 1
	}
	fmt.Println("replay passes on the current tree")
	return 0
}

// ---- witness-corpus replay for YAML decoders (C16) ---------------------------------------------------

var yamlWitnessCorpus = []string{
	"{}", "[]", "~", "a", "''", "[~]", "[[]]", "[{}]", "{a: ~}", "{a: {}}", "{a: []}", "{a: [~]}", "{~: ~}",
	"{sh: ~}", "{ref: ~}", "{map: ~}", "{sh: {}}", "{for: {}}", "{for: ~}", "{for: {matrix: {}}}", "{for: {matrix: ~}}",
	"{for: {matrix: {a: ~}}}", "{for: {matrix: {a: {}}}}", "{for: {var: ~}}", "{cmd: ~}", "{task: ~}", "{defer: ~}", "{defer: {}}",
	"{cmds: [~]}", "{cmds: [{}]}", "{deps: [~]}", "{deps: [{}]}", "{sources: [~]}", "{generates: [~]}", "{platforms: [~]}",
	"{cmd: x, platforms: [~]}", "{task: x, vars: ~}", "{platforms: ['']}", "{platforms: ['/']}", "{platforms: ['a/b/c']}", "{requires: {vars: [~]}}", "{requires: {vars: [{}]}}", "{requires: ~}",
	"{preconditions: [~]}", "{preconditions: [{}]}", "{vars: {A: {}}}", "{vars: {A: ~}}", "{env: {A: {}}}", "{vars: ~}", "{vars: []}",
	"{includes: {a: ~}}", "{includes: {a: {}}}", "{includes: []}", "{tasks: {a: ~}}", "{tasks: {a: {}}}", "{tasks: {a: []}}", "{tasks: []}",
	"{tasks: {a: {cmds: [{for: {}}]}}}", "{tasks: {a: {vars: {X: {}}}}}", "{tasks: {a: {sources: [~]}}}", "{tasks: {a: {platforms: [~]}}}",
	"{output: {}}", "{output: {group: ~}}", "{output: ~}", "{prompt: [~]}", "{prompt: {}}", "{exclude: ~}", "{aliases: [~]}",
	"{version: ~}", "{version: {}}", "{dotenv: [~]}", "{set: [~]}", "{shopt: [~]}", "{run: {}}", "{status: [~]}", "{method: []}",
}

func init() {
	for _, k := range []string{"index", "nil-deref", "slice-bounds", "type-assert", "panic", "div-by-zero", "nil-map-store", "makeslice"} {
		replayRegistry[k] = replaySafety
	}
}

func replaySafety(r *PropResult, o *Obligation) *replayTemplate {
	fn := r.W.P.Funcs[o.Func]
	if fn == nil {
		return nil
	}
	if fn.Name() == "UnmarshalYAML" && len(fn.Params) > 0 {
		return replayYAMLDecoder(r, o)
	}
	if w, ok := safetyWitness[shortName(o.Func)]; ok {
		rel, pkgName, ok := r.W.pkgRelOf(o.Func)
		if !ok {
			return nil
		}
		src := fmt.Sprintf("package %s\n\nimport \"testing\"\n\n%s\nfunc TestGvcReplay(t *testing.T) {\n\tdefer func() {\n\t\tif r := recover(); r != nil {\n\t\t\tt.Fatalf(\"GVC-REPLAY-REPRODUCED: %%v\", r)\n\t\t}\n\t}()\n%s\n}\n", pkgName, w.imports, w.body)
		return &replayTemplate{pkgRel: rel, testName: "TestGvcReplay", src: src, what: w.what}
	}
	return nil
}

type witness struct{ imports, body, what string }

// safetyWitness: concrete representatives for safety obligations of functions whose inputs are not YAML
// documents (design 2.8 "witness": used only by replay, never by proof). Keyed by short function name.
var safetyWitness = map[string]witness{
	"taskfile.NewGitNode$1": {"", "\t_, _ = NewGitNode(\"https://github.com/foo/bar.git\", \"\", false)",
		"NewGitNode on a location that ends in .git without a // path separator"},
	"taskfile.NewGitNode": {"", "\t_, _ = NewGitNode(\"https://github.com/foo/bar.git\", \"\", false)",
		"NewGitNode on a location that ends in .git without a // path separator"},
	"taskfile.NewSnippet": {"", "\t_ = NewSnippet([]byte(\"a\"), WithLine(5), WithPadding(2))",
		"NewSnippet for a line number beyond the number of newline-terminated lines (e.g. CR line ends)"},
}

func replayYAMLDecoder(r *PropResult, o *Obligation) *replayTemplate {
	rel, pkgName, ok := r.W.pkgRelOf(o.Func)
	if !ok {
		return nil
	}
	fn := r.W.P.Funcs[o.Func]
	tn := shortTypeName(typeStr(deref(fn.Params[0].Type())))
	var docs strings.Builder
	for _, d := range yamlWitnessCorpus {
		fmt.Fprintf(&docs, "\t\t%q,\n", d)
	}
	src := fmt.Sprintf(`package %s

import (
	"testing"

	"gopkg.in/yaml.v3"
)

func TestGvcReplay(t *testing.T) {
	docs := []string{
%s	}
	for _, d := range docs {
		func() {
			defer func() {
				if r := recover(); r != nil {
					t.Fatalf("GVC-REPLAY-REPRODUCED: decoding %%q into *%s panics: %%v", d, r)
				}
			}()
			var v %s
			_ = yaml.Unmarshal([]byte(d), &v)
		}()
	}
}
`, pkgName, docs.String(), tn, tn)
	return &replayTemplate{pkgRel: rel, testName: "TestGvcReplay", src: src,
		what: "a YAML document from the witness corpus makes (*" + tn + ").UnmarshalYAML panic"}
}

// replayDecoderEnsures: decode every witness document and evaluate the failed post-condition on the result.
func replayDecoderEnsures(r *PropResult, o *Obligation) *replayTemplate {
	rel, pkgName, ok := r.W.pkgRelOf(o.Func)
	if !ok {
		return nil
	}
	fn := r.W.P.Funcs[o.Func]
	recv := fn.Params[0]
	tn := shortTypeName(typeStr(deref(recv.Type())))
	clause, ok := specToGo(o.Clause.Expr, map[string]string{recv.Name(): "(&v)", "result": "err"})
	if !ok {
		return nil
	}
	var docs strings.Builder
	for _, d := range yamlWitnessCorpus {
		fmt.Fprintf(&docs, "\t\t%q,\n", d)
	}
	src := fmt.Sprintf(`package %s

import (
	"testing"

	"gopkg.in/yaml.v3"
)

func TestGvcReplay(t *testing.T) {
	docs := []string{
%s	}
	for _, d := range docs {
		var n yaml.Node
		if yaml.Unmarshal([]byte(d), &n) != nil || len(n.Content) == 0 {
			continue
		}
		var v %s
		err := (&v).UnmarshalYAML(n.Content[0])
		holds := func() (ok bool) {
			defer func() {
				if recover() != nil {
					ok = true // evaluating the clause itself failed: inconclusive
				}
			}()
			return %s
		}()
		if !holds {
			t.Fatalf("GVC-REPLAY-REPRODUCED: after (*%s).UnmarshalYAML of %%q the clause %%s is false", d, %q)
		}
	}
}
`, pkgName, docs.String(), tn, clause, tn, o.Clause.Text)
	return &replayTemplate{pkgRel: rel, testName: "TestGvcReplay", src: src,
		what: "a YAML document from the witness corpus leaves the post-condition false: " + o.Clause.Text}
}

// cmdScenario runs a hand-written scenario against the current tree: "gvc scenario <func-short-name> [clause-substr]".
// Exit 1 if the scenario reproduces the defect it was written for, 0 if it passes.
func cmdScenario(args []string) int {
	if len(args) < 1 {
		fmt.Println("usage: gvc scenario list | <func> [clause substring]")
		return 2
	}
	if args[0] == "list" {
		for _, cs := range clauseScenarios {
			fmt.Printf("%s | %s | %s\n", cs.fn, cs.clause, cs.sc.what)
		}
		for fn, sc := range scenarios {
			fmt.Printf("%s | | %s\n", fn, sc.what)
		}
		return 0
	}
	sub := ""
	if len(args) > 1 {
		sub = args[1]
	}
	for _, cs := range clauseScenarios {
		if cs.fn == args[0] && (sub == "" || strings.Contains(cs.clause, sub) || strings.Contains(sub, cs.clause)) {
			failed, out, err := runOverlayTest(cs.sc.pkgRel, "TestGvcReplay", cs.sc.src)
			fmt.Println(out)
			if err != nil {
				fmt.Println("scenario error:", err)
				return 2
			}
			if failed {
				fmt.Println("REPRODUCED:", cs.sc.what)
				return 1
			}
			fmt.Println("scenario passes on this tree")
			return 0
		}
	}
	if sc, ok := scenarios[args[0]]; ok {
		failed, out, err := runOverlayTest(sc.pkgRel, "TestGvcReplay", sc.src)
		fmt.Println(out)
		if err != nil {
			return 2
		}
		if failed {
			return 1
		}
		return 0
	}
	fmt.Println("no such scenario")
	return 2
}
