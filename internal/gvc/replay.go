package gvc

func cmdReplay(args []string) int { return 2 }

// tryReplay attempts to reproduce a failed obligation on the real code; it records the outcome in rep.
func tryReplay(r *PropResult, o *Obligation, rep map[string]any) {
	rep["replay"] = "no replay template for this obligation kind; the failed obligation and the solver output above are the evidence"
}
