package gvc

import (
	"fmt"
	"go/ast"
	"go/token"
	"go/types"
	"strings"

	"golang.org/x/tools/go/ssa"
)

func (vc *VC) safety() bool { return vc.fc == nil || ((vc.fc.Sweep || vc.fc.NoPanic) && !vc.fc.NoSafety) }

func (vc *VC) safetyTags() []string {
	if vc.fc != nil {
		return vc.fc.SweepTags
	}
	return nil
}

func (vc *VC) obligeSafety(kind, goal string, pos token.Pos) {
	if !vc.safety() {
		return
	}
	vc.oblige(kind, "", goal, vc.safetyTags(), pos, nil)
}

func (vc *VC) instr(ins ssa.Instruction) {
	switch ins := ins.(type) {
	case *ssa.DebugRef:
		if id, ok := ins.Expr.(*ast.Ident); ok && id.Name != "_" {
			if _, isFn := ins.X.(*ssa.Function); !isFn {
				if !ins.IsAddr {
					vc.localRefs[id.Name] = append(vc.localRefs[id.Name], localRef{ins.X, vc.cur, false})
				} else if _, isAlloc := ins.X.(*ssa.Alloc); isAlloc {
					// address-taken / captured local: the name denotes the content of its cell
					vc.localRefs[id.Name] = append(vc.localRefs[id.Name], localRef{ins.X, vc.cur, true})
				}
			}
		}
	case *ssa.Alloc:
		vc.alloc(ins)
	case *ssa.FieldAddr:
		vc.fieldAddr(ins)
	case *ssa.IndexAddr:
		vc.indexAddr(ins)
	case *ssa.Field:
		st := ins.X.Type()
		vc.define(ins, fmt.Sprintf("(%s %s)", vc.fvFun(st, ins.Field), vc.val(ins.X)))
	case *ssa.Index:
		vc.index(ins)
	case *ssa.UnOp:
		vc.unop(ins)
	case *ssa.BinOp:
		vc.binop(ins)
	case *ssa.Store:
		// pseudo-site "store:T.f": contracts may say what is written into a field ("site store:Task.Silent#1
		// requires arg1 == origTask.Silent"; arg0 is the object, arg1 the value), evaluated in the state AT the store
		if n := storeSiteName(ins); n != "" && vc.fc != nil && len(vc.fc.Sites) > 0 {
			var obj ssa.Value
			switch a := ins.Addr.(type) {
			case *ssa.FieldAddr:
				obj = a.X
			case *ssa.IndexAddr:
				obj = a.X
			}
			args := map[string]sval{"arg0": {term: vc.val(obj), typ: obj.Type()}, "arg1": {term: vc.val(ins.Val), typ: ins.Val.Type()}}
			ord := vc.ordinalOf(ins, n)
			vc.siteClauses(n, ord, "site-requires", args, ins.Pos())
			vc.store(ins.Addr, vc.val(ins.Val), ins.Val.Type(), ins.Pos())
			vc.siteClauses(n, ord, "site-post", args, ins.Pos()) // ghost assignments of "site store:T.f ghost ..."
			return
		}
		vc.store(ins.Addr, vc.val(ins.Val), ins.Val.Type(), ins.Pos())
	case *ssa.Call:
		vc.call(ins)
	case *ssa.Extract:
		tv := vc.tupleOf(ins.Tuple)
		if ins.Index < len(tv) {
			vc.vals[ins] = tv[ins.Index]
		} else {
			vc.havocVal(ins)
		}
	case *ssa.MakeInterface:
		vc.makeInterface(ins)
	case *ssa.ChangeInterface:
		vc.define(ins, vc.val(ins.X))
	case *ssa.ChangeType:
		vc.define(ins, vc.val(ins.X))
	case *ssa.Convert:
		vc.convert(ins)
	case *ssa.MultiConvert:
		vc.abstracted("multiconvert")
		vc.havocVal(ins)
	case *ssa.TypeAssert:
		vc.typeAssert(ins)
	case *ssa.MakeClosure:
		vc.makeClosure(ins)
	case *ssa.MakeSlice:
		vc.makeSlice(ins)
	case *ssa.MakeMap:
		r := vc.newRef(ins)
		d, v := vc.mapKeys(ins.Type().Underlying().(*types.Map))
		vc.st = vc.st.derive()
		vc.st.set(d, vc.storeT(vc.st.prev.get(d), r, "((as const (Array Int Bool)) false)"))
		vc.st.set(v, vc.st.prev.get(v))
	case *ssa.MakeChan:
		vc.newRef(ins)
	case *ssa.Slice:
		vc.slice(ins)
	case *ssa.SliceToArrayPointer:
		vc.abstracted("slice-to-array-pointer")
		vc.havocVal(ins)
	case *ssa.Lookup:
		vc.lookup(ins)
	case *ssa.MapUpdate:
		vc.mapUpdate(ins)
	case *ssa.Range:
		vc.guardedUse(ins.X, ins.Pos(), "range")
		vc.define(ins, "")
	case *ssa.Next:
		vc.next(ins)
	case *ssa.Select:
		vc.unmodelledConc("select", ins.Pos())
		vc.havocTuple(ins)
		vc.havocAll(true)
	case *ssa.Send:
		vc.send(ins)
	case *ssa.Go:
		vc.goStmt(ins)
	case *ssa.Defer:
		vc.deferStmt(ins)
	case *ssa.RunDefers:
		vc.runDefers(ins)
	case *ssa.Panic:
		vc.panicInstr(ins)
	case *ssa.Return:
		if len(vc.inlStack) > 0 {
			vc.inlineRet(ins)
		} else {
			vc.ret(ins)
		}
	case *ssa.If, *ssa.Jump:
	default:
		vc.abstracted(fmt.Sprintf("instr %T", ins))
		if v, ok := ins.(ssa.Value); ok {
			vc.havocVal(v)
		}
	}
}

func (vc *VC) unmodelledConc(what string, pos token.Pos) {
	vc.abstracted("concurrency:" + what)
	if vc.fc != nil && !vc.fc.Sweep && !vc.fc.AllowGo {
		vc.oblige("no-unmodelled-concurrency", what, "false", vc.fc.allTags(), pos, nil)
	}
}

func (fc *FuncContract) allTags() []string {
	var t []string
	for k := range fc.Tags {
		t = append(t, k)
	}
	sortStrings(t)
	return t
}

// ---- allocation ----------------------------------------------------------------------

// newRef allocates a fresh reference (distinct from everything allocated before) and defines v as it.
func (vc *VC) newRef(v ssa.Value) string {
	ak := vc.allocKey()
	old := vc.st.get(ak)
	r := vc.define(v, fmt.Sprintf("(+ %s 1)", old))
	vc.st = vc.st.derive()
	vc.st.set(ak, r)
	return r
}

func (vc *VC) storeT(arr, idx, v string) string { return fmt.Sprintf("(store %s %s %s)", arr, idx, v) }

func (vc *VC) alloc(ins *ssa.Alloc) {
	r := vc.newRef(ins)
	t := deref(ins.Type())
	vc.zeroInit(r, t)
	// a local whose address never leaves the function cannot be changed by any call: its cells survive every
	// havoc of the heap (see state.get)
	if privateAlloc(ins) {
		for _, k := range vc.zeroKeys(t) {
			vc.privateRefs[k] = append(vc.privateRefs[k], r)
		}
	}
}

// privateAlloc: the address of the allocation (and of its parts) is only ever used to load and store through it.
func privateAlloc(a *ssa.Alloc) bool {
	var ok func(v ssa.Value, depth int) bool
	ok = func(v ssa.Value, depth int) bool {
		refs := v.Referrers()
		if refs == nil || depth > 4 {
			return false
		}
		for _, r := range *refs {
			switch x := r.(type) {
			case *ssa.DebugRef:
			case *ssa.Store:
				if x.Addr != v || x.Val == v {
					return false
				}
			case *ssa.UnOp:
				if x.Op != token.MUL {
					return false
				}
			case *ssa.FieldAddr:
				if x.X != v || !ok(x, depth+1) {
					return false
				}
			case *ssa.MakeClosure:
				// captured by a closure that only ever READS it (and hands it to nested closures that only read it):
				// whenever that closure runs, it cannot change the local
				inner, isFn := x.Fn.(*ssa.Function)
				if !isFn {
					return false
				}
				for i, b := range x.Bindings {
					if b == v && (i >= len(inner.FreeVars) || !readOnlyUse(inner.FreeVars[i], depth+1)) {
						return false
					}
				}
			default:
				return false
			}
		}
		return true
	}
	return ok(a, 0)
}

// readOnlyUse: the address v (a captured variable, or the address of one of its parts) is only loaded from.
func readOnlyUse(v ssa.Value, depth int) bool {
	refs := v.Referrers()
	if refs == nil || depth > 6 {
		return false
	}
	for _, r := range *refs {
		switch x := r.(type) {
		case *ssa.DebugRef:
		case *ssa.UnOp:
			if x.Op != token.MUL {
				return false
			}
		case *ssa.FieldAddr:
			if x.X != v || !readOnlyUse(x, depth+1) {
				return false
			}
		case *ssa.MakeClosure:
			inner, isFn := x.Fn.(*ssa.Function)
			if !isFn {
				return false
			}
			for i, b := range x.Bindings {
				if b == v && (i >= len(inner.FreeVars) || !readOnlyUse(inner.FreeVars[i], depth+1)) {
					return false
				}
			}
		default:
			return false
		}
	}
	return true
}

// zeroInit sets the object at ref r of type t to its zero value.
func (vc *VC) zeroInit(r string, t types.Type) {
	switch u := t.Underlying().(type) {
	case *types.Struct:
		for i := 0; i < u.NumFields(); i++ {
			ft := u.Field(i).Type()
			if _, ok := structOf(ft); ok {
				vc.zeroInit(vc.subRef(t, i, r), ft)
				continue
			}
			if at, ok := ft.Underlying().(*types.Array); ok {
				vc.zeroArray(vc.subRef(t, i, r), at)
				continue
			}
			k := vc.fieldKey(t, i)
			vc.st.set(k, vc.storeT(vc.st.get(k), r, zeroOf(ft)))
		}
	case *types.Array:
		vc.zeroArray(r, u)
	default:
		k := vc.cellKey(t)
		vc.st.set(k, vc.storeT(vc.st.get(k), r, zeroOf(t)))
	}
}

func (vc *VC) zeroArray(r string, at *types.Array) {
	et := at.Elem()
	if _, ok := structOf(et); ok {
		vc.abstracted("array of structs")
		return
	}
	k := vc.elemKey(et)
	vc.st.set(k, vc.storeT(vc.st.get(k), r, fmt.Sprintf("((as const (Array Int %s)) %s)", sortOf(et), zeroOf(et))))
}

// subRef: reference of a struct-typed (or array-typed) field embedded in the object at r.
func (vc *VC) subRef(st types.Type, field int, r string) string {
	f := vc.declareFun("sub!"+shortType(st)+"."+recFieldName(st, field), []string{"Int"}, "Int")
	return fmt.Sprintf("(%s %s)", f, r)
}

func (vc *VC) fvFun(st types.Type, field int) string {
	s, _ := structOf(st)
	return vc.declareFun("fv!"+shortType(st)+"."+recFieldName(st, field), []string{"Int"}, sortOf(s.Field(field).Type()))
}

// ---- addresses, loads, stores --------------------------------------------------------

func (vc *VC) nilCheck(v ssa.Value, term string, pos token.Pos) {
	switch x := v.(type) {
	case *ssa.Alloc, *ssa.Global, *ssa.FieldAddr, *ssa.IndexAddr, *ssa.MakeMap, *ssa.FreeVar:
		return
	case *ssa.Parameter:
		if !(vc.fc != nil && vc.fc.Nilable[x.Name()]) {
			return
		}
	}
	vc.obligeSafety("nil-deref", fmt.Sprintf("(not (= %s 0))", term), pos)
}

func (vc *VC) fieldAddr(ins *ssa.FieldAddr) {
	base := vc.val(ins.X)
	vc.nilCheck(ins.X, base, ins.Pos())
	st := deref(ins.X.Type())
	s, _ := structOf(st)
	ft := s.Field(ins.Field).Type()
	_, isStruct := structOf(ft)
	_, isArr := ft.Underlying().(*types.Array)
	if isStruct || isArr {
		vc.define(ins, vc.subRef(st, ins.Field, base))
		return
	}
	f := vc.declareFun("fa!"+shortType(st)+"."+recFieldName(st, ins.Field), []string{"Int"}, "Int")
	vc.define(ins, fmt.Sprintf("(%s %s)", f, base))
	vc.addrs[ins] = &addr{kind: "field", key: vc.fieldKey(st, ins.Field), base: base, typ: ft}
}

func (vc *VC) indexAddr(ins *ssa.IndexAddr) {
	x := vc.val(ins.X)
	i := vc.val(ins.Index)
	var et types.Type
	var arr, idx string
	switch t := ins.X.Type().Underlying().(type) {
	case *types.Slice:
		et = t.Elem()
		vc.obligeSafety("index", fmt.Sprintf("(and (<= 0 %s) (< %s (sl_len %s)))", i, i, x), ins.Pos())
		arr = fmt.Sprintf("(sl_arr %s)", x)
		idx = fmt.Sprintf("(idx (sl_off %s) %s)", x, i)
	case *types.Pointer:
		at := t.Elem().Underlying().(*types.Array)
		et = at.Elem()
		vc.nilCheck(ins.X, x, ins.Pos())
		if _, isConst := ins.Index.(*ssa.Const); !isConst {
			vc.obligeSafety("index", fmt.Sprintf("(and (<= 0 %s) (< %s %d))", i, i, at.Len()), ins.Pos())
		}
		arr, idx = x, i
	default:
		vc.abstracted("indexaddr on " + typeStr(ins.X.Type()))
		vc.havocVal(ins)
		return
	}
	f := vc.declareFun("ea!"+shortType(et), []string{"Int", "Int"}, "Int")
	vc.define(ins, fmt.Sprintf("(%s %s %s)", f, arr, idx))
	if _, ok := structOf(et); ok {
		// element is a struct stored inline: address is a sub-reference
		return
	}
	vc.addrs[ins] = &addr{kind: "elem", key: vc.elemKey(et), base: arr, idx: idx, typ: et}
}

func (vc *VC) index(ins *ssa.Index) {
	x := vc.val(ins.X)
	i := vc.val(ins.Index)
	switch t := ins.X.Type().Underlying().(type) {
	case *types.Basic: // string
		vc.obligeSafety("index", fmt.Sprintf("(and (<= 0 %s) (< %s (slen %s)))", i, i, x), ins.Pos())
		n := vc.define(ins, fmt.Sprintf("(sat %s %s)", x, i))
		vc.assume(fmt.Sprintf("(and (<= 0 %s) (<= %s 255))", n, n))
	case *types.Array:
		_ = t
		vc.abstracted("index on array value")
		vc.havocVal(ins)
	default:
		vc.abstracted("index on " + typeStr(ins.X.Type()))
		vc.havocVal(ins)
	}
}

// addrOf resolves a pointer value to a heap location.
func (vc *VC) addrOf(p ssa.Value) *addr {
	if a, ok := vc.addrs[p]; ok {
		return a
	}
	t := deref(p.Type())
	return &addr{kind: "cell", key: "", base: vc.val(p), typ: t}
}

func (vc *VC) loadAddr(a *addr) string {
	switch a.kind {
	case "field":
		return fmt.Sprintf("(select %s %s)", vc.st.get(a.key), a.base)
	case "elem":
		return fmt.Sprintf("(select (select %s %s) %s)", vc.st.get(a.key), a.base, a.idx)
	}
	return fmt.Sprintf("(select %s %s)", vc.st.get(vc.cellKey(a.typ)), a.base)
}

func (vc *VC) load(ins *ssa.UnOp) {
	p := ins.X
	t := ins.Type()
	if _, isAddr := vc.addrs[p]; !isAddr {
		vc.nilCheck(p, vc.val(p), ins.Pos())
	}
	if _, ok := structOf(t); ok {
		n := vc.define(ins, "")
		vc.loadStruct(n, vc.val(p), t)
		return
	}
	if _, ok := t.Underlying().(*types.Array); ok {
		vc.abstracted("load of array value")
		vc.havocVal(ins)
		return
	}
	a := vc.addrOf(p)
	n := vc.define(ins, vc.loadAddr(a))
	vc.loadFacts(n, t, a)
	if g, isGlobal := p.(*ssa.Global); isGlobal && vc.C.NonNil[g.Pkg.Pkg.Path()+"."+g.Name()] {
		// package-level variable initialised once with a non-nil value and never reassigned (declared "nonnil")
		vc.assume(fmt.Sprintf("(not (= %s 0))", n))
		vc.usedContracts["nonnil global "+g.Pkg.Pkg.Path()+"."+g.Name()] = true
	}
}

// loadFacts: facts on a value read from the heap (a havoc source).
func (vc *VC) loadFacts(n string, t types.Type, a *addr) {
	nonnil := false
	if a != nil && a.kind == "field" && vc.C.NonNil[a.key[2:]] {
		nonnil = true
	}
	if a != nil && a.kind == "elem" && vc.C.NonNil["elem:"+a.key[2:]] && !(vc.inDecoder() && strings.Contains(a.key, "github.com/go-task/task/")) {
		nonnil = true
	}
	vc.typeFacts(n, t, nonnil)
}

// loadStruct: struct value sv equals the object at ref r.
func (vc *VC) loadStruct(sv, r string, t types.Type) {
	s, _ := structOf(t)
	for i := 0; i < s.NumFields(); i++ {
		ft := s.Field(i).Type()
		fv := fmt.Sprintf("(%s %s)", vc.fvFun(t, i), sv)
		if _, ok := structOf(ft); ok {
			vc.loadStruct(fv, vc.subRef(t, i, r), ft)
			continue
		}
		if _, ok := ft.Underlying().(*types.Array); ok {
			continue
		}
		k := vc.fieldKey(t, i)
		vc.assert(fmt.Sprintf("(= %s (select %s %s))", fv, vc.st.get(k), r))
	}
}

func (vc *VC) storeStruct(r, sv string, t types.Type) {
	s, _ := structOf(t)
	for i := 0; i < s.NumFields(); i++ {
		ft := s.Field(i).Type()
		fv := fmt.Sprintf("(%s %s)", vc.fvFun(t, i), sv)
		if _, ok := structOf(ft); ok {
			vc.storeStruct(vc.subRef(t, i, r), fv, ft)
			continue
		}
		if _, ok := ft.Underlying().(*types.Array); ok {
			continue
		}
		k := vc.fieldKey(t, i)
		vc.st.set(k, vc.storeT(vc.st.get(k), r, fv))
	}
}

func (vc *VC) store(ptr ssa.Value, v string, vt types.Type, pos token.Pos) {
	if _, isAddr := vc.addrs[ptr]; !isAddr {
		vc.nilCheck(ptr, vc.val(ptr), pos)
	}
	t := deref(ptr.Type())
	vc.frameCheck(ptr, pos)
	vc.st = vc.st.derive()
	if _, ok := structOf(t); ok {
		vc.storeStruct(vc.val(ptr), v, t)
		return
	}
	if _, ok := t.Underlying().(*types.Array); ok {
		vc.abstracted("store of array value")
		return
	}
	a := vc.addrOf(ptr)
	switch a.kind {
	case "field":
		vc.st.set(a.key, vc.storeT(vc.st.prev.get(a.key), a.base, v))
	case "elem":
		old := vc.st.prev.get(a.key)
		vc.st.set(a.key, vc.storeT(old, a.base, vc.storeT(fmt.Sprintf("(select %s %s)", old, a.base), a.idx, v)))
	default:
		k := vc.cellKey(t)
		vc.st.set(k, vc.storeT(vc.st.prev.get(k), a.base, v))
	}
}

// frameCheck: a store must hit a fresh object or a component named in the function's modifies clause.
func (vc *VC) frameCheck(ptr ssa.Value, pos token.Pos) {
	if vc.fc == nil || vc.fc.Sweep || vc.fc.TrustedFrame || !vc.fc.HasMod {
		return
	}
	if _, isFree := ptr.(*ssa.FreeVar); isFree {
		return // a variable of the enclosing function (captured by reference): local to that function
	}
	base, ok := vc.storeBase(ptr)
	if !ok {
		return
	}
	keys := vc.storeKeys(ptr)
	allowed := true
	for _, k := range keys {
		if !vc.modAllows(vc.fc, k) {
			allowed = false
		}
	}
	if allowed {
		return
	}
	// object-level entries ("p.Field"): the store may also hit exactly that object
	goal := fmt.Sprintf("(> %s %s)", base, vc.entryAlloc)
	if len(keys) == 1 {
		for _, om := range vc.objMods() {
			if om.key == keys[0] {
				goal = fmt.Sprintf("(or %s (= %s %s))", goal, base, om.obj)
			}
		}
	}
	vc.oblige("frame", "store-to-fresh", goal, vc.fc.allTags(), pos, nil)
}

type objMod struct {
	key, obj, src string
}

// objMods: the object-level modifies entries of the function under verification ("p.Field"), evaluated at entry.
func (vc *VC) objMods() []objMod {
	if vc.objModCache != nil || vc.fc == nil {
		return vc.objModCache
	}
	vc.objModCache = []objMod{}
	env := vc.envAt(vc.entry, vc.entry)
	for _, m := range vc.fc.Modifies {
		if key, obj, ok := vc.resolveObjMod(m, env); ok {
			vc.objModCache = append(vc.objModCache, objMod{key, obj, m})
		}
	}
	return vc.objModCache
}

// resolveObjMod: "x.F" where x is a specification expression of pointer-to-struct type (typically a parameter).
func (vc *VC) resolveObjMod(m string, env *specEnv) (key, obj string, ok bool) {
	if strings.HasPrefix(m, "*") && !strings.ContainsAny(m[1:], "./* ") {
		// "*p": the cell a pointer parameter points to
		v, isVar := env.vars[m[1:]]
		if !isVar || v.typ == nil {
			return "", "", false
		}
		pt, isPtr := v.typ.Underlying().(*types.Pointer)
		if !isPtr {
			// interface-typed target (errors.As): the pointee type is not known statically
			return "", "", false
		}
		if _, isStruct := structOf(pt.Elem()); isStruct {
			return "", "", false
		}
		return vc.cellKey(pt.Elem()), v.term, true
	}
	if !strings.Contains(m, ".") || strings.Contains(m, "/") || strings.HasSuffix(m, "*") {
		return "", "", false
	}
	e, err := ParseSpec(m)
	if err != nil {
		return "", "", false
	}
	f, isField := e.(*EField)
	if !isField {
		return "", "", false
	}
	head := f.X
	for {
		if ff, ok := head.(*EField); ok {
			head = ff.X
			continue
		}
		break
	}
	id, isIdent := head.(*EIdent)
	if !isIdent {
		return "", "", false
	}
	if _, isVar := env.vars[id.Name]; !isVar {
		if _, isCell := env.freeCells[id.Name]; !isCell {
			return "", "", false
		}
	}
	defer func() {
		if r := recover(); r != nil {
			if _, isGen := r.(genErr); isGen {
				ok = false
				return
			}
			panic(r)
		}
	}()
	x := vc.tr(f.X, env, nil)
	if x.typ == nil {
		return "", "", false
	}
	st := deref(x.typ)
	s, isStruct := structOf(st)
	if !isStruct {
		return "", "", false
	}
	for i := 0; i < s.NumFields(); i++ {
		if recFieldName(st, i) == f.Name {
			return vc.fieldKey(st, i), x.term, true
		}
	}
	return "", "", false
}

// storeBase: the object reference a store goes to (for freshness checks).
func (vc *VC) storeBase(ptr ssa.Value) (string, bool) {
	switch p := ptr.(type) {
	case *ssa.FieldAddr:
		if _, isField := p.X.(*ssa.FieldAddr); isField {
			return vc.storeBase(p.X)
		}
		if _, isAlloc := p.X.(*ssa.Alloc); isAlloc {
			return "", false
		}
		return vc.val(p.X), true
	case *ssa.IndexAddr:
		switch p.X.Type().Underlying().(type) {
		case *types.Slice:
			return fmt.Sprintf("(sl_arr %s)", vc.val(p.X)), true
		case *types.Pointer:
			if _, isAlloc := p.X.(*ssa.Alloc); isAlloc {
				return "", false
			}
			return vc.val(p.X), true
		}
	case *ssa.Alloc:
		return "", false
	}
	return vc.val(ptr), true
}

func (vc *VC) modAllows(fc *FuncContract, key string) bool {
	if fc.Pure {
		return false
	}
	for _, m := range fc.Modifies {
		if m == "*" || m == "heap" && isHeapKey(key) {
			return true
		}
		if fc == vc.fc {
			isObj := false
			for _, om := range vc.objMods() {
				if om.src == m {
					isObj = true
				}
			}
			if isObj {
				continue
			}
		}
		if keyMatches(key, m) {
			return true
		}
	}
	return false
}

// keyMatches: modifies entries are written "ast.Task.Cmds", "elem []string", "cell T", ghost names.
func keyMatches(key, m string) bool {
	if len(key) < 2 {
		return false
	}
	body := key[2:]
	if m == "cells" {
		return key[0] == 'C'
	}
	if strings.HasPrefix(m, "elem:") {
		return key[0] == 'E' && (body == m[5:] || hasSuffixAt(body, m[5:]))
	}
	if strings.HasSuffix(m, "*") && key[0] != 'G' {
		return strings.HasPrefix(body, m[:len(m)-1]) || strings.HasPrefix(strings.TrimPrefix(body, "*"), m[:len(m)-1])
	}
	if key[0] == 'G' {
		return body == m
	}
	return body == m || hasSuffixAt(body, m)
}

func hasSuffixAt(s, suf string) bool {
	if len(s) <= len(suf) || s[len(s)-len(suf):] != suf {
		return false
	}
	c := s[len(s)-len(suf)-1]
	return c == '/' || c == '.'
}

// ---- guarded_by ------------------------------------------------------------------------------------------

// guardOf: if v is a value loaded from a field declared guarded_by, the lock that must be held to use it.
func (vc *VC) guardOf(v ssa.Value) (lock string, g *Guarded, ok bool) {
	ld, isLoad := v.(*ssa.UnOp)
	if !isLoad || ld.Op != token.MUL {
		return "", nil, false
	}
	fa, isFA := ld.X.(*ssa.FieldAddr)
	if !isFA {
		return "", nil, false
	}
	st := deref(fa.X.Type())
	s, isStruct := structOf(st)
	if !isStruct {
		return "", nil, false
	}
	name := shortType(st) + "." + recFieldName(st, fa.Field)
	for _, gd := range vc.C.Guarded {
		if gd.Field != name {
			continue
		}
		excepted := false
		for _, ex := range gd.Except {
			if matchCallee(vc.Name, ex) || matchCallee(CanonName(rootFunc(vc.fn)), ex) {
				excepted = true
			}
		}
		if excepted {
			vc.usedContracts["guarded_by "+gd.Field+" not applied in "+shortName(vc.Name)+" (declared exception)"] = true
			continue
		}
		for i := 0; i < s.NumFields(); i++ {
			if shortType(st)+"."+recFieldName(st, i) == gd.Mutex {
				return vc.subRef(st, i, vc.val(fa.X)), gd, true
			}
		}
	}
	return "", nil, false
}

func rootFunc(f *ssa.Function) *ssa.Function {
	for f.Parent() != nil {
		f = f.Parent()
	}
	return f
}

// guardedUse: using (dereferencing, indexing, calling a method on) a guarded value needs its lock.
func (vc *VC) guardedUse(v ssa.Value, pos token.Pos, what string) {
	lock, gd, ok := vc.guardOf(v)
	if !ok {
		return
	}
	key, _, okh := vc.ghostKey("held")
	if !okh {
		return
	}
	o := vc.oblige("guarded-by", what, fmt.Sprintf("(select %s %s)", vc.st.get(key), lock), gd.Tags, pos, nil)
	o.Text = gd.Field + " is used only while " + gd.Mutex + " is held"
	o.File, o.Line = gd.File, gd.Line
}

// ---- unary / binary ---------------------------------------------------------------------

func (vc *VC) unop(ins *ssa.UnOp) {
	switch ins.Op {
	case token.MUL:
		vc.load(ins)
	case token.NOT:
		vc.define(ins, not(vc.val(ins.X)))
	case token.SUB:
		vc.define(ins, fmt.Sprintf("(- %s)", vc.val(ins.X)))
	case token.ARROW:
		vc.recv(ins)
	case token.XOR:
		vc.define(ins, fmt.Sprintf("(uf_bits 0 %s 0)", vc.val(ins.X)))
	default:
		vc.abstracted("unop " + ins.Op.String())
		vc.havocVal(ins)
	}
}

func isString(t types.Type) bool {
	b, ok := t.Underlying().(*types.Basic)
	return ok && b.Info()&types.IsString != 0
}

func isInteger(t types.Type) bool {
	b, ok := t.Underlying().(*types.Basic)
	return ok && b.Info()&types.IsInteger != 0
}

func isFloat(t types.Type) bool {
	b, ok := t.Underlying().(*types.Basic)
	return ok && b.Info()&(types.IsFloat|types.IsComplex) != 0
}

func (vc *VC) binop(ins *ssa.BinOp) {
	x, y := vc.val(ins.X), vc.val(ins.Y)
	xt := ins.X.Type()
	if isFloat(xt) {
		vc.abstracted("float arithmetic")
		vc.havocVal(ins)
		return
	}
	switch ins.Op {
	case token.ADD:
		if isString(xt) {
			n := vc.define(ins, fmt.Sprintf("(scat %s %s)", x, y))
			vc.assert(fmt.Sprintf("(= (slen %s) (+ (slen %s) (slen %s)))", n, x, y))
			return
		}
		vc.define(ins, fmt.Sprintf("(+ %s %s)", x, y))
	case token.SUB:
		vc.define(ins, fmt.Sprintf("(- %s %s)", x, y))
	case token.MUL:
		vc.define(ins, fmt.Sprintf("(* %s %s)", x, y))
	case token.QUO:
		vc.obligeSafety("div-by-zero", fmt.Sprintf("(not (= %s 0))", y), ins.Pos())
		vc.define(ins, fmt.Sprintf("(godiv %s %s)", x, y))
	case token.REM:
		vc.obligeSafety("div-by-zero", fmt.Sprintf("(not (= %s 0))", y), ins.Pos())
		vc.define(ins, fmt.Sprintf("(gomod %s %s)", x, y))
	case token.EQL, token.NEQ:
		eq := vc.eqTerm(x, y, xt)
		if ins.Op == token.NEQ {
			eq = not(eq)
		}
		vc.define(ins, eq)
	case token.LSS, token.LEQ, token.GTR, token.GEQ:
		if isString(xt) {
			var t string
			switch ins.Op {
			case token.LSS:
				t = fmt.Sprintf("(slt %s %s)", x, y)
			case token.GTR:
				t = fmt.Sprintf("(slt %s %s)", y, x)
			case token.LEQ:
				t = fmt.Sprintf("(not (slt %s %s))", y, x)
			default:
				t = fmt.Sprintf("(not (slt %s %s))", x, y)
			}
			vc.define(ins, t)
			return
		}
		op := map[token.Token]string{token.LSS: "<", token.LEQ: "<=", token.GTR: ">", token.GEQ: ">="}[ins.Op]
		vc.define(ins, fmt.Sprintf("(%s %s %s)", op, x, y))
	case token.AND, token.OR, token.XOR, token.SHL, token.SHR, token.AND_NOT:
		if isBoolType(xt) {
			vc.abstracted("bool bitop")
			vc.havocVal(ins)
			return
		}
		n := vc.define(ins, fmt.Sprintf("(uf_bits %d %s %s)", int(ins.Op), x, y))
		vc.typeFacts(n, ins.Type(), false)
	default:
		vc.abstracted("binop " + ins.Op.String())
		vc.havocVal(ins)
	}
}

func (vc *VC) eqTerm(x, y string, t types.Type) string {
	if s, ok := structOf(t); ok {
		var parts []string
		for i := 0; i < s.NumFields(); i++ {
			f := vc.fvFun(t, i)
			parts = append(parts, vc.eqTerm(fmt.Sprintf("(%s %s)", f, x), fmt.Sprintf("(%s %s)", f, y), s.Field(i).Type()))
		}
		return and(parts...)
	}
	return fmt.Sprintf("(= %s %s)", x, y)
}

func (vc *VC) convert(ins *ssa.Convert) {
	x := vc.val(ins.X)
	from, to := ins.X.Type(), ins.Type()
	switch {
	case isInteger(from) && isInteger(to):
		flo, fhi, _ := intRange(from)
		tlo, thi, _ := intRange(to)
		if containsRange(tlo, thi, flo, fhi) {
			vc.define(ins, x)
			return
		}
		// narrowing / sign change: result is some value of the target type, equal to x when x fits
		n := vc.define(ins, "")
		vc.typeFacts(n, to, false)
		vc.assume(fmt.Sprintf("(=> (and (<= %s %s) (<= %s %s)) (= %s %s))", tlo, x, x, thi, n, x))
	case isString(from) && isString(to):
		vc.define(ins, x)
	case isString(to) || isString(from):
		n := vc.define(ins, fmt.Sprintf("(uf_conv %d %s)", vc.typeID(to), x))
		if sl, ok := to.Underlying().(*types.Slice); ok && isString(from) {
			// []byte(s) / []rune(s)
			vc.assume(fmt.Sprintf("(and (<= 0 (sl_len %s)) (<= (sl_len %s) (sl_cap %s)) (<= 0 (sl_off %s)))", n, n, n, n))
			if b, ok := sl.Elem().Underlying().(*types.Basic); ok && b.Kind() == types.Uint8 {
				vc.assume(fmt.Sprintf("(= (sl_len %s) (slen %s))", n, x))
			}
		}
		if isString(to) {
			if sl, ok := from.Underlying().(*types.Slice); ok {
				if b, ok := sl.Elem().Underlying().(*types.Basic); ok && b.Kind() == types.Uint8 {
					vc.assume(fmt.Sprintf("(= (slen %s) (sl_len %s))", n, x))
				}
			}
		}
	case isPointerLike(from) || isPointerLike(to):
		vc.define(ins, x)
	default:
		vc.abstracted("convert " + typeStr(from) + "->" + typeStr(to))
		vc.havocVal(ins)
	}
}

func containsRange(tlo, thi, flo, fhi string) bool {
	ord := map[string]int{"(- 9223372036854775808)": -64, "(- 2147483648)": -32, "(- 32768)": -16, "(- 128)": -8, "0": 0,
		"127": 7, "255": 8, "32767": 15, "65535": 16, "2147483647": 31, "4294967295": 32, "9223372036854775807": 63, "18446744073709551615": 64}
	return ord[tlo] <= ord[flo] && ord[thi] >= ord[fhi]
}

// ---- interfaces ------------------------------------------------------------------------------

func (vc *VC) boxTerm(t types.Type, x string) string {
	id := vc.typeID(t)
	var b string
	if isBoolType(t) {
		b = fmt.Sprintf("(iboxb %d %s)", id, x)
		vc.assert(fmt.Sprintf("(and (= (itag %s) %d) (= (iplb %s) %s) (not (= %s 0)))", b, id, b, x, b))
	} else {
		b = fmt.Sprintf("(ibox %d %s)", id, x)
		vc.assert(fmt.Sprintf("(and (= (itag %s) %d) (= (ipl %s) %s) (not (= %s 0)))", b, id, b, x, b))
	}
	return b
}

func (vc *VC) makeInterface(ins *ssa.MakeInterface) {
	vc.define(ins, vc.boxTerm(ins.X.Type(), vc.val(ins.X)))
}

func (vc *VC) implementsTerm(tag string, iface types.Type) string {
	id := vc.typeID(iface)
	// static facts for the concrete types seen so far are added on demand
	it, _ := iface.Underlying().(*types.Interface)
	if it != nil {
		for s, tid := range vc.typeIDs {
			_ = s
			ct := vc.typeList[tid-1]
			if _, isI := ct.Underlying().(*types.Interface); isI {
				continue
			}
			key := fmt.Sprintf("impl:%d:%d", tid, id)
			if vc.declSet[key] {
				continue
			}
			vc.declSet[key] = true
			if types.Implements(ct, it) {
				vc.assert(fmt.Sprintf("(implements %d %d)", tid, id))
			} else {
				vc.assert(fmt.Sprintf("(not (implements %d %d))", tid, id))
			}
		}
	}
	return fmt.Sprintf("(implements %s %d)", tag, id)
}

func (vc *VC) typeAssert(ins *ssa.TypeAssert) {
	x := vc.val(ins.X)
	at := ins.AssertedType
	var ok, v string
	if _, isI := at.Underlying().(*types.Interface); isI {
		ok = and(not(fmt.Sprintf("(= %s 0)", x)), vc.implementsTerm(fmt.Sprintf("(itag %s)", x), at))
		v = x
	} else {
		ok = fmt.Sprintf("(= (itag %s) %d)", x, vc.typeID(at))
		if isBoolType(at) {
			v = fmt.Sprintf("(iplb %s)", x)
		} else {
			v = fmt.Sprintf("(ipl %s)", x)
		}
	}
	if ins.CommaOk {
		okc := vc.freshConst("taok", "Bool")
		vc.assert(fmt.Sprintf("(= %s %s)", okc, ok))
		vv := vc.freshConst("taval", sortOf(at))
		vc.assert(fmt.Sprintf("(= %s (ite %s %s %s))", vv, okc, v, zeroOf(at)))
		vc.vals[ins] = "tuple"
		vc.tuples[ins] = []string{vv, okc}
		save := vc.cur
		_ = save
		vc.assume(fmt.Sprintf("(=> %s %s)", okc, vc.typeFactTerm(vv, at)))
		return
	}
	vc.obligeSafety("type-assert", ok, ins.Pos())
	n := vc.define(ins, v)
	vc.assume(vc.typeFactTerm(n, at))
}

// typeFactTerm returns the type facts of a value as a term (true if none).
func (vc *VC) typeFactTerm(term string, t types.Type) string {
	if lo, hi, ok := intRange(t); ok {
		return fmt.Sprintf("(and (<= %s %s) (<= %s %s))", lo, term, term, hi)
	}
	switch t.Underlying().(type) {
	case *types.Slice:
		return fmt.Sprintf("(and (<= 0 (sl_len %s)) (<= (sl_len %s) (sl_cap %s)) (<= 0 (sl_off %s)))", term, term, term, term)
	}
	return "true"
}

// ---- slices, maps, ranges ---------------------------------------------------------------------

func (vc *VC) makeSlice(ins *ssa.MakeSlice) {
	l, c := vc.val(ins.Len), vc.val(ins.Cap)
	vc.obligeSafety("makeslice", fmt.Sprintf("(and (<= 0 %s) (<= %s %s))", l, l, c), ins.Pos())
	ak := vc.allocKey()
	old := vc.st.get(ak)
	r := vc.freshConst("arr", "Int")
	vc.assert(fmt.Sprintf("(= %s (+ %s 1))", r, old))
	vc.st = vc.st.derive()
	vc.st.set(ak, r)
	et := ins.Type().Underlying().(*types.Slice).Elem()
	if _, ok := structOf(et); !ok {
		k := vc.elemKey(et)
		vc.st.set(k, vc.storeT(vc.st.prev.get(k), r, fmt.Sprintf("((as const (Array Int %s)) %s)", sortOf(et), zeroOf(et))))
	}
	n := vc.define(ins, "")
	vc.assert(fmt.Sprintf("(and (= (sl_arr %s) %s) (= (sl_off %s) 0) (= (sl_len %s) %s) (= (sl_cap %s) %s) (not (= %s 0)))", n, r, n, n, l, n, c, n))
}

func (vc *VC) slice(ins *ssa.Slice) {
	x := vc.val(ins.X)
	lo := "0"
	if ins.Low != nil {
		lo = vc.val(ins.Low)
	}
	switch t := ins.X.Type().Underlying().(type) {
	case *types.Basic: // string
		hi := fmt.Sprintf("(slen %s)", x)
		if ins.High != nil {
			hi = vc.val(ins.High)
		}
		vc.obligeSafety("slice-bounds", fmt.Sprintf("(and (<= 0 %s) (<= %s %s) (<= %s (slen %s)))", lo, lo, hi, hi, x), ins.Pos())
		n := vc.define(ins, fmt.Sprintf("(ssub %s %s %s)", x, lo, hi))
		vc.assume(fmt.Sprintf("(= (slen %s) (- %s %s))", n, hi, lo))
		vc.assume(fmt.Sprintf("(=> (and (= %s 0) (= %s (slen %s))) (= %s %s))", lo, hi, x, n, x))
	case *types.Slice:
		hi := fmt.Sprintf("(sl_len %s)", x)
		if ins.High != nil {
			hi = vc.val(ins.High)
		}
		mx := fmt.Sprintf("(sl_cap %s)", x)
		if ins.Max != nil {
			mx = vc.val(ins.Max)
		}
		vc.obligeSafety("slice-bounds", fmt.Sprintf("(and (<= 0 %s) (<= %s %s) (<= %s %s) (<= %s (sl_cap %s)))", lo, lo, hi, hi, mx, mx, x), ins.Pos())
		n := vc.define(ins, "")
		vc.assume(fmt.Sprintf("(and (= (sl_arr %s) (sl_arr %s)) (= (sl_off %s) (+ (sl_off %s) %s)) (= (sl_len %s) (- %s %s)) (= (sl_cap %s) (- %s %s)))",
			n, x, n, x, lo, n, hi, lo, n, mx, lo))
		vc.assume(fmt.Sprintf("(=> (not (= %s 0)) (not (= %s 0)))", x, n))
	case *types.Pointer:
		at := t.Elem().Underlying().(*types.Array)
		hi := fmt.Sprint(at.Len())
		if ins.High != nil {
			hi = vc.val(ins.High)
		}
		if ins.Low != nil || ins.High != nil {
			vc.obligeSafety("slice-bounds", fmt.Sprintf("(and (<= 0 %s) (<= %s %s) (<= %s %d))", lo, lo, hi, hi, at.Len()), ins.Pos())
		}
		n := vc.define(ins, "")
		vc.assume(fmt.Sprintf("(and (= (sl_arr %s) %s) (= (sl_off %s) %s) (= (sl_len %s) (- %s %s)) (= (sl_cap %s) (- %d %s)) (not (= %s 0)))",
			n, x, n, lo, n, hi, lo, n, at.Len(), lo, n))
	default:
		vc.abstracted("slice of " + typeStr(ins.X.Type()))
		vc.havocVal(ins)
	}
}

func (vc *VC) lookup(ins *ssa.Lookup) {
	vc.guardedUse(ins.X, ins.Pos(), "map-read")
	x, k := vc.val(ins.X), vc.val(ins.Index)
	if m, ok := ins.X.Type().Underlying().(*types.Map); ok {
		d, v := vc.mapKeys(m)
		has := fmt.Sprintf("(select (select %s %s) %s)", vc.st.get(d), x, k)
		val := fmt.Sprintf("(select (select %s %s) %s)", vc.st.get(v), x, k)
		vt := m.Elem()
		res := vc.freshConst("mval", sortOf(vt))
		vc.assert(fmt.Sprintf("(= %s (ite (and (not (= %s 0)) %s) %s %s))", res, x, has, val, zeroOf(vt)))
		vc.loadFacts(res, vt, nil)
		if ins.CommaOk {
			okc := vc.freshConst("mok", "Bool")
			vc.assert(fmt.Sprintf("(= %s (and (not (= %s 0)) %s))", okc, x, has))
			vc.vals[ins] = "tuple"
			vc.tuples[ins] = []string{res, okc}
			return
		}
		vc.vals[ins] = res
		return
	}
	// string index
	vc.obligeSafety("index", fmt.Sprintf("(and (<= 0 %s) (< %s (slen %s)))", k, k, x), ins.Pos())
	n := vc.define(ins, fmt.Sprintf("(sat %s %s)", x, k))
	vc.assume(fmt.Sprintf("(and (<= 0 %s) (<= %s 255))", n, n))
}

func (vc *VC) mapUpdate(ins *ssa.MapUpdate) {
	m := ins.Map.Type().Underlying().(*types.Map)
	vc.guardedUse(ins.Map, ins.Pos(), "map-write")
	x, k, v := vc.val(ins.Map), vc.val(ins.Key), vc.val(ins.Value)
	// pseudo-site "mapstore": contracts may say when a map entry may be written ("site mapstore#1 requires ...")
	msArgs := map[string]sval{
		"arg0": {term: x, typ: ins.Map.Type()}, "arg1": {term: k, typ: ins.Key.Type()}, "arg2": {term: v, typ: ins.Value.Type()}}
	msOrd := vc.ordinalOf(ins, "mapstore")
	vc.siteClauses("mapstore", msOrd, "site-requires", msArgs, ins.Pos())
	defer vc.siteClauses("mapstore", msOrd, "site-post", msArgs, ins.Pos()) // "site mapstore#N ghost ..." after the write
	vc.obligeSafety("nil-map-store", fmt.Sprintf("(not (= %s 0))", x), ins.Pos())
	vc.frameCheckMap(ins)
	d, vk := vc.mapKeys(m)
	vc.st = vc.st.derive()
	od, ov := vc.st.prev.get(d), vc.st.prev.get(vk)
	vc.st.set(d, vc.storeT(od, x, vc.storeT(fmt.Sprintf("(select %s %s)", od, x), k, "true")))
	vc.st.set(vk, vc.storeT(ov, x, vc.storeT(fmt.Sprintf("(select %s %s)", ov, x), k, v)))
}

func (vc *VC) frameCheckMap(ins *ssa.MapUpdate) {
	if vc.fc == nil || vc.fc.Sweep || vc.fc.TrustedFrame || !vc.fc.HasMod {
		return
	}
	m := ins.Map.Type().Underlying().(*types.Map)
	d, _ := vc.mapKeys(m)
	if vc.modAllows(vc.fc, d) {
		return
	}
	vc.oblige("frame", "mapstore-to-fresh", fmt.Sprintf("(> %s %s)", vc.val(ins.Map), vc.entryAlloc), vc.fc.allTags(), ins.Pos(), nil)
}

func (vc *VC) next(ins *ssa.Next) {
	ok := vc.freshConst("nextok", "Bool")
	rng, _ := ins.Iter.(*ssa.Range)
	tup := ins.Type().(*types.Tuple)
	kv := vc.freshConst("nextk", sortOf(tup.At(1).Type()))
	vv := vc.freshConst("nextv", sortOf(tup.At(2).Type()))
	if rng != nil {
		x := vc.val(rng.X)
		if m, isMap := rng.X.Type().Underlying().(*types.Map); isMap {
			d, v := vc.mapKeys(m)
			vc.assume(fmt.Sprintf("(=> %s (and (not (= %s 0)) (select (select %s %s) %s) (= %s (select (select %s %s) %s))))",
				ok, x, vc.st.get(d), x, kv, vv, vc.st.get(v), x, kv))
			vc.typeFacts(kv, m.Key(), false)
			vc.loadFacts(vv, m.Elem(), nil)
		} else if ins.IsString {
			vc.assume(fmt.Sprintf("(=> %s (and (<= 0 %s) (< %s (slen %s))))", ok, kv, kv, x))
			vc.typeFacts(vv, tup.At(2).Type(), false)
		}
	}
	vc.vals[ins] = "tuple"
	vc.tuples[ins] = []string{ok, kv, vv}
}

func (vc *VC) havocTuple(v ssa.Value) {
	tup, ok := v.Type().(*types.Tuple)
	if !ok {
		vc.havocVal(v)
		return
	}
	var ts []string
	for i := 0; i < tup.Len(); i++ {
		c := vc.freshConst("tup", sortOf(tup.At(i).Type()))
		vc.typeFacts(c, tup.At(i).Type(), false)
		ts = append(ts, c)
	}
	vc.vals[v] = "tuple"
	vc.tuples[v] = ts
}

func (vc *VC) tupleOf(v ssa.Value) []string {
	if t, ok := vc.tuples[v]; ok {
		return t
	}
	return nil
}

// havocAll forgets the heap (and, for repo-internal unknown code, non-local ghost state).
func (vc *VC) havocAll(ghost bool) {
	vc.st = vc.st.derive()
	vc.st.havocHeap = true
	vc.st.havocGhst = ghost
	vc.st.havocKeys = map[string]bool{vc.allocKey(): true}
}

func (vc *VC) recv(ins *ssa.UnOp) {
	// channel receive: modelled only through a site clause or the primitive contract of <-ctx.Done()
	name := "recv"
	ord := vc.ordinalOf(ins, name)
	args := map[string]sval{"ch": {term: vc.val(ins.X), typ: ins.X.Type()}}
	handled := vc.siteClauses(name, ord, "site-requires", args, ins.Pos())
	var doneFC *FuncContract
	var doneCtx sval
	if c, ok := ins.X.(*ssa.Call); ok && c.Call.IsInvoke() && c.Call.Method.Name() == "Done" {
		if fc := vc.C.Funcs["context.(Context).Done$recv"]; fc != nil {
			doneFC = fc
			doneCtx = sval{term: vc.val(c.Call.Value), typ: c.Call.Value.Type()}
			args["ctx"] = doneCtx
			vc.usedContracts["context.(Context).Done$recv"] = true
		}
	}
	pre := vc.st
	if handled || doneFC != nil || vc.hasSite(name, ord) {
		// the goroutine may be suspended: shared ghost state is weakened, its own heap objects are untouched
		vc.st = vc.st.derive()
		vc.st.havocGhst = true
		if doneFC != nil {
			env := vc.newEnv(vc.st, pre, "context")
			env.vars["ctx"] = doneCtx
			for _, e := range doneFC.Ensures {
				vc.assume(vc.trBool(e.Expr, env, e))
			}
		}
	} else {
		vc.unmodelledConc("recv", ins.Pos())
		vc.havocAll(true)
	}
	if ins.CommaOk {
		vc.havocTuple(ins)
	} else {
		vc.havocVal(ins)
	}
	vc.siteClausesAt(name, ord, "site-post", args, ins.Pos(), pre, "")
}

// hasSite: some site clause of the function under verification names this operation.
func (vc *VC) hasSite(name string, ord int) bool {
	if vc.fc == nil {
		return false
	}
	for _, c := range vc.fc.Sites {
		if matchCallee(name, c.Site) && (c.SiteN == 0 || c.SiteN == ord) {
			return true
		}
	}
	return false
}

func (vc *VC) send(ins *ssa.Send) {
	name := "send"
	ord := vc.ordinalOf(ins, name)
	args := map[string]sval{"ch": {term: vc.val(ins.Chan), typ: ins.Chan.Type()}}
	if !vc.hasSite(name, ord) {
		vc.unmodelledConc("send", ins.Pos())
		vc.havocAll(true)
		return
	}
	vc.siteClauses(name, ord, "site-requires", args, ins.Pos())
	pre := vc.st
	vc.st = vc.st.derive()
	vc.st.havocGhst = true
	vc.siteClausesAt(name, ord, "site-post", args, ins.Pos(), pre, "")
}

func (vc *VC) panicInstr(ins *ssa.Panic) {
	if !ins.Pos().IsValid() {
		// synthesized by the compiler's range-over-func lowering (iterator protocol misuse): not user code
		vc.abstracted("synthetic range-over-func protocol panic")
		return
	}
	vc.obligeSafety("panic", "false", ins.Pos())
}

// storeSiteName: "store:T.f" for a store to field f of a struct of the (package-local name of) type T.
func storeSiteName(ins *ssa.Store) string {
	if ia, isIdx := ins.Addr.(*ssa.IndexAddr); isIdx {
		// "store:[]T": an element of a slice (or array) of T is overwritten in place
		switch u := ia.X.Type().Underlying().(type) {
		case *types.Slice:
			return "store:[]" + shortTypeName(shortType(u.Elem()))
		case *types.Pointer:
			// (not the array a slice literal or an argument list is being built in)
			if _, building := ia.X.(*ssa.Alloc); building {
				return ""
			}
			if at, isArr := u.Elem().Underlying().(*types.Array); isArr {
				return "store:[]" + shortTypeName(shortType(at.Elem()))
			}
		}
		return ""
	}
	fa, ok := ins.Addr.(*ssa.FieldAddr)
	if !ok {
		return ""
	}
	st := deref(fa.X.Type())
	if _, ok := structOf(st); !ok {
		return ""
	}
	return "store:" + shortTypeName(shortType(st)) + "." + recFieldName(st, fa.Field)
}

// sharedWritten: al is captured by a closure made in this function that stores into it (itself or through a nested
// closure) AND that closure value goes somewhere other than an immediate call / defer in this function (it is passed
// to a call, stored, returned, started with go): its writes happen at times this function does not control.
// sharedWrittenAt: some escaping closure that writes al may already have been made when ins executes (the
// instruction is reachable in the control-flow graph from the point where the closure is made).
func (vc *VC) sharedWrittenAt(al *ssa.Alloc, ins ssa.Instruction) bool {
	mcs := vc.sharedWritten(al)
	for _, mc := range mcs {
		// a closure that is only ever passed as an argument to ordinary calls is a callback: it runs during those
		// calls. One that is started as a goroutine (go statement, a callee declared "spawns"), stored or returned
		// may run at any later time.
		callbackOnly := true
		handedTo := map[ssa.Instruction]bool{}
		if mrefs := mc.Referrers(); mrefs != nil {
			for _, u := range *mrefs {
				switch x := u.(type) {
				case *ssa.DebugRef:
				case *ssa.Call:
					if x.Call.Value == ssa.Value(mc) {
						continue
					}
					name, _ := vc.calleeName(x.Common())
					if fc := vc.C.Funcs[name]; fc != nil && fc.Spawns {
						callbackOnly = false
					}
					handedTo[x] = true
				case *ssa.Defer:
					if x.Call.Value != ssa.Value(mc) {
						callbackOnly = false
					}
				default:
					callbackOnly = false
				}
			}
		}
		if callbackOnly {
			if handedTo[ins] {
				return true
			}
			continue
		}
		mb, ib := mc.Block(), ins.Block()
		if mb == ib {
			after := false
			for _, x := range mb.Instrs {
				if x == ssa.Instruction(mc) {
					after = true
				}
				if x == ins && after {
					return true
				}
			}
		}
		seen := map[*ssa.BasicBlock]bool{}
		stack := append([]*ssa.BasicBlock{}, mb.Succs...)
		for len(stack) > 0 {
			b := stack[len(stack)-1]
			stack = stack[:len(stack)-1]
			if seen[b] {
				continue
			}
			seen[b] = true
			if b == ib {
				return true
			}
			stack = append(stack, b.Succs...)
		}
	}
	return false
}

func (vc *VC) sharedWritten(al *ssa.Alloc) []*ssa.MakeClosure {
	if v, ok := vc.sharedMemo[al]; ok {
		return v
	}
	if vc.sharedMemo == nil {
		vc.sharedMemo = map[*ssa.Alloc][]*ssa.MakeClosure{}
	}
	var res []*ssa.MakeClosure
	var writes func(fn *ssa.Function, fv *ssa.FreeVar, depth int) bool
	writes = func(fn *ssa.Function, fv *ssa.FreeVar, depth int) bool {
		if depth > 3 || fv.Referrers() == nil {
			return false
		}
		for _, r := range *fv.Referrers() {
			switch x := r.(type) {
			case *ssa.Store:
				if x.Addr == fv {
					return true
				}
			case *ssa.MakeClosure:
				inner := x.Fn.(*ssa.Function)
				for i, b := range x.Bindings {
					if b == ssa.Value(fv) && i < len(inner.FreeVars) && writes(inner, inner.FreeVars[i], depth+1) {
						return true
					}
				}
			}
		}
		return false
	}
	if refs := al.Referrers(); refs != nil {
		for _, r := range *refs {
			mc, ok := r.(*ssa.MakeClosure)
			if !ok {
				continue
			}
			fn := mc.Fn.(*ssa.Function)
			if fn.Synthetic != "" && (al.Comment == "" || strings.Contains(al.Comment, "$")) {
				// the body of a range-over-func loop. A VARIABLE OF THE PROGRAM that it writes is unknown after the
				// loop statement (the call of the iterator), like any local written by a callback. The control cells
				// the compiler adds for a return / break out of the body (jump$N, the result cells) keep their
				// values: a return from inside such a body is not followed into the enclosing function (§6).
				continue
			}
			w := false
			for i, b := range mc.Bindings {
				if b == ssa.Value(al) && i < len(fn.FreeVars) && writes(fn, fn.FreeVars[i], 0) {
					w = true
				}
			}
			if !w {
				continue
			}
			// where does the closure value go?
			escapes := false
			if mrefs := mc.Referrers(); mrefs != nil {
				for _, u := range *mrefs {
					switch x := u.(type) {
					case *ssa.DebugRef:
					case *ssa.Call:
						if x.Call.Value != ssa.Value(mc) {
							escapes = true // an argument of a call
						}
					case *ssa.Defer:
						if x.Call.Value != ssa.Value(mc) {
							escapes = true
						}
					default:
						escapes = true
					}
				}
			}
			if escapes {
				res = append(res, mc)
			}
		}
	}
	vc.sharedMemo[al] = res
	return res
}

// havocSharedLocals: at a call, every local that an escaping closure writes (see sharedWritten) and that may
// already be shared at this point holds, afterwards, whatever that closure has stored by then: the call may have run
// it (a callback), or it is a synchronisation point after which the writes of a goroutine are visible.
func (vc *VC) havocSharedLocals(at ssa.Instruction) {
	if vc.sharedAllocs == nil {
		vc.sharedAllocs = []*ssa.Alloc{}
		for _, b := range vc.fn.Blocks {
			for _, ins := range b.Instrs {
				if al, ok := ins.(*ssa.Alloc); ok && len(vc.sharedWritten(al)) > 0 {
					vc.sharedAllocs = append(vc.sharedAllocs, al)
				}
			}
		}
	}
	if at.Parent() != vc.fn {
		return
	}
	for _, al := range vc.sharedAllocs {
		r, defined := vc.vals[al]
		if !defined || !vc.sharedWrittenAt(al, at) {
			continue
		}
		t := deref(al.Type())
		vc.st = vc.st.derive()
		for _, k := range vc.zeroKeys(t) {
			old := vc.st.prev.get(k)
			fresh := vc.freshConst("shared", sortOfKey(vc.keyMeta(k)))
			vc.st.set(k, vc.storeT(old, r, fresh))
		}
		vc.Abstract["a local written by an escaping closure is unknown after every call made while the closure may run"]++
	}
}

// inDecoder: the function is a YAML decoder (or a closure of one). The decoders are the PRODUCERS of the declared
// "no nil element" invariant of the decoded lists: what yaml put into a list is not assumed to satisfy it there.
func (vc *VC) inDecoder() bool {
	for f := vc.fn; f != nil; f = f.Parent() {
		if f.Name() == "UnmarshalYAML" {
			return true
		}
	}
	return false
}
