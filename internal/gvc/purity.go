package gvc

import (
	"go/token"
	"go/types"

	"golang.org/x/tools/go/ssa"
)

// inferPure reports whether fn provably leaves every pre-existing heap object and all ghost state
// untouched (it may allocate). The analysis is syntactic and conservative: stores only into memory
// allocated by fn itself, no map updates on foreign maps, no channel operations, go or defer statements,
// and calls only to functions that are pure by contract or by this same analysis.
func (vc *VC) inferPure(fn *ssa.Function) bool {
	if fn == nil || len(fn.Blocks) == 0 {
		return false
	}
	memo := vc.C.pureMemo
	if memo == nil {
		memo = map[*ssa.Function]int{}
		vc.C.pureMemo = memo
	}
	switch memo[fn] {
	case 1:
		return true
	case 2:
		return false
	case 3:
		return false // cycle: be conservative
	}
	memo[fn] = 3
	ok := vc.inferPureBody(fn)
	if ok {
		memo[fn] = 1
	} else {
		memo[fn] = 2
	}
	return ok
}

func localRoot(v ssa.Value) bool {
	for {
		switch x := v.(type) {
		case *ssa.Alloc:
			return true
		case *ssa.FieldAddr:
			v = x.X
		case *ssa.IndexAddr:
			if _, isSlice := x.X.Type().Underlying().(*types.Slice); isSlice {
				switch s := x.X.(type) {
				case *ssa.MakeSlice:
					return true
				case *ssa.Slice:
					v = s.X
					continue
				}
				return false
			}
			v = x.X
		case *ssa.MakeMap, *ssa.MakeSlice:
			return true
		default:
			return false
		}
	}
}

func (vc *VC) inferPureBody(fn *ssa.Function) bool {
	for _, b := range fn.Blocks {
		for _, ins := range b.Instrs {
			switch ins := ins.(type) {
			case *ssa.Store:
				if !localRoot(ins.Addr) {
					return false
				}
			case *ssa.MapUpdate:
				if !localRoot(ins.Map) {
					return false
				}
			case *ssa.Send, *ssa.Select, *ssa.Go:
				return false
			case *ssa.MakeClosure:
				// creating a closure only allocates; it is harmless if the closure's own body is pure
				cf, ok := ins.Fn.(*ssa.Function)
				if !ok || !vc.inferPure(cf) {
					return false
				}
			case *ssa.RunDefers:
			case *ssa.Defer:
				if !vc.pureCallee(ins.Common()) {
					return false
				}
			case *ssa.UnOp:
				if ins.Op == token.ARROW {
					return false
				}
			case *ssa.Call:
				c := ins.Common()
				if bi, ok := c.Value.(*ssa.Builtin); ok {
					switch bi.Name() {
					case "len", "cap", "append", "min", "max", "ssa:wrapnilchk", "print", "println", "real", "imag", "complex":
						continue
					case "copy":
						if localRoot(c.Args[0]) {
							continue
						}
						return false
					case "delete":
						if localRoot(c.Args[0]) {
							continue
						}
						return false
					default:
						return false
					}
				}
				if !vc.pureCallee(c) {
					return false
				}
			}
		}
	}
	return true
}

// pureCallee: the callee is pure by contract (and says nothing about ghost state) or by inference.
func (vc *VC) pureCallee(c *ssa.CallCommon) bool {
	if _, isBuiltin := c.Value.(*ssa.Builtin); isBuiltin {
		return false
	}
	name, callee := vc.calleeName(c)
	fc := vc.C.Funcs[name]
	if fc == nil && callee != nil && callee.Origin() != nil {
		fc = vc.C.Funcs[CanonName(callee.Origin())]
	}
	if fc != nil && fc.Pure && onlyLockUpdates(fc) && !mentionsGhostState(vc, fc) {
		return true
	}
	if fc != nil && fc.HasMod {
		return false
	}
	return callee != nil && vc.P.InRepo(FuncPkgPath(callee)) && vc.inferPure(callee)
}

func mentionsGhostState(vc *VC, fc *FuncContract) bool {
	gn := map[string]bool{}
	for _, e := range fc.Ensures {
		vc.ghostNamesIn(e.Expr, gn)
	}
	return len(gn) > 0
}

// onlyLockUpdates: the only ghost state the contract updates is the lock set (balanced by obligation).
func onlyLockUpdates(fc *FuncContract) bool {
	for _, u := range fc.Updates {
		if u.Ghost.Name != "held" {
			return false
		}
	}
	return true
}
