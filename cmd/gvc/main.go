package main

import (
	"fmt"
	"os"

	"verif/internal/gvc"
)

func main() {
	os.Exit(gvc.Main(os.Args[1:]))
}

func init() { _ = fmt.Sprint }
